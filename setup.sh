#!/bin/sh
# Build /verif/.venv: an overlay of /venv (the repository's own interpreter and deps) plus crosshair-tool and
# z3-solver from the offline wheelhouse.  Idempotent; no network.
set -e
cd "$(dirname "$0")"
if [ ! -x .venv/bin/python ] || ! .venv/bin/python -c "import z3, crosshair, regex, dateutil" 2>/dev/null; then
  rm -rf .venv
  /venv/bin/python -m venv .venv
  SP=$(.venv/bin/python -c "import site; print(site.getsitepackages()[0])")
  printf '%s\n' "import site; site.addsitedir('/venv/lib/python3.12/site-packages')" > "$SP/_verif_overlay.pth"
  PIP_NO_INDEX=1 .venv/bin/pip install -q --no-index --find-links /opt/veriftools/wheels crosshair-tool z3-solver
fi
.venv/bin/python -c "import z3, crosshair, regex, dateutil; print('verif venv ok, z3', z3.get_version_string())"
