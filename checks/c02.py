"""C02 — parse is total: a datetime or None, documented exceptions only (symx, public API entry)."""
import datetime as _dt

import z3

from symx import core, dates
from symx.core import _zi, mkbool, SInt
from symx.tmpl import tmpl, render
from . import common as C

ID = "C02"
ENCODED = ["dateparser.date.DateDataParser.__init__/get_date_data", "dateparser.conf.apply_settings/check_settings/Settings.replace",
           "dateparser.date._DateLocaleParser._parse/_try_parser/_try_freshness_parser/_try_timestamp_parser",
           "dateparser.date_parser.DateParser.parse", "dateparser.parser._parser.* / _no_spaces_parser.parse",
           "dateparser.freshness_date_parser.FreshnessDateDataParser.*", "dateparser.utils.apply_timezone/localize_timezone",
           "dateparser.timezone_parser.pop_tz_offset_from_string"]
ASSUMPTIONS = [
    "bounded claim: the string is a TEMPLATE with UNCONSTRAINED decimal fields (month 00-99, day 00-99, hour 00-99, "
    "offset digits 0000-9999 ...): letters and separators are concrete, so arbitrary str <= 100 (token soups, arbitrary "
    "Unicode, 200 languages) is outside this technique; English selected",
    "RELATIVE_BASE anywhere in [datetime.min, datetime.max] incl. microseconds, naive or aware (fixed offsets); TIMEZONE / "
    "TO_TIMEZONE from a pool of fixed-offset spellings; PREFER_* symbolic; clock stub when no RELATIVE_BASE",
    "any exception that leaves get_date_data on a feasible path (arguments are valid) is a counterexample; the result "
    "must be a DateData with period in {time,day,week,month,year} and date_obj None iff locale None",
    "token soups: strings of 2 (thorough: 3) tokens drawn by symbolic choice from a pool of 45 English date words, "
    "separators, zone words and numeric fields whose digits are symbolic, reference instant over the full range",
    "settings validation: a finite table of (key, candidate value) pairs, each tried after a call with a valid value of "
    "the same key (history of length 2), the date string symbolic; the oracle is an independent validity table",
    "date theory (symx.dates) stands for CPython datetime/calendar; symbolic regex stands for re/regex on templates",
]
PERIODS = ("time", "day", "week", "month", "year")
TZ_POOL = [None, "UTC", "+0530", "-0800", "UTC+03:00", "-1200", "+1400"]

TEMPLATES = {
    "iso_date": [("a", 4), "-", ("b", 2), "-", ("c", 2)],
    "iso_dt": [("a", 4), "-", ("b", 2), "-", ("c", 2), " ", ("e", 2), ":", ("f", 2)],
    "iso_dt_tz-": [("a", 4), "-", ("b", 2), "-", ("c", 2), " ", ("e", 2), ":", ("f", 2), " -", ("g", 2), ("h", 2)],
    "iso_dt_tz+": [("a", 4), "-", ("b", 2), "-", ("c", 2), " ", ("e", 2), ":", ("f", 2), " +", ("g", 2), ":", ("h", 2)],
    "slash": [("a", 2), "/", ("b", 2), "/", ("c", 4)],
    "slash_yy": [("a", 2), "/", ("b", 2), "/", ("c", 2)],
    "dMonthY": [("a", 2), " February ", ("c", 4)],
    "MonthdY_t": ["March ", ("a", 2), ", ", ("c", 4), " ", ("e", 2), ":", ("f", 2), " PM"],
    "time_only": [("e", 2), ":", ("f", 2), ":", ("g", 2)],
    "year_only": [("a", 4)],
    "digits8": [("a", 8)],
    "digits6": [("a", 6)],
    "epoch10": [("a", 10)],
    "epoch13": [("a", 13)],
    "neg_epoch": ["-", ("a", 10)],
    "years_ago": [("a", 4), " years ago"],
    "in_weeks": ["in ", ("a", 4), " weeks"],
    "months_days_ago": [("a", 3), " months, ", ("b", 4), " days ago"],
    "in_decades": ["in ", ("a", 3), " decades"],
    "hours_ago_tz": [("a", 4), " hours ago +", ("g", 2), ("h", 2)],
    "hm": [("e", 2), ":", ("f", 2)],
    "weekday": ["Friday"],
    "month_only": ["February"],
    "d_month": [("a", 2), " February"],
}


def h_total(template, base_kind, tz, to_tz, parsers=None, aware=None, base_years=None, ranges=None, prefs=None):
    parts = TEMPLATES[template]

    def fn():
        v = {}
        for p in parts:
            if not isinstance(p, str):
                lo, hi = (ranges or {}).get(p[0], (0, 10 ** p[1] - 1))
                v[p[0]] = C.field(p[0], lo, hi)
        if prefs:
            st, wit = dict(prefs), {}
        else:
            st, wit = C.pref_settings()
        if tz:
            st["TIMEZONE"] = tz
        if to_tz:
            st["TO_TIMEZONE"] = to_tz
        if parsers:
            st["PARSERS"] = list(parsers)
        if aware is not None:
            st["RETURN_AS_TIMEZONE_AWARE"] = aware
        if base_kind != "clock":
            tzinfo = None
            if base_kind.startswith("aware"):
                tzinfo = _dt.timezone(_dt.timedelta(minutes=int(base_kind[5:])))
            b = C.sym_base("b", *(base_years or (1, 9999)), tzinfo=tzinfo)
            st["RELATIVE_BASE"] = b
            wit.update(C.base_witness(b))
        wit.update(v)
        s = tmpl(parts, v)
        n = C.ns()
        try:
            dd = C.api(s, languages=["en"], settings=st)
        except n.CONF.SettingValidationError as e:
            return C.outcome(False, wit, "raised:SettingValidationError", {"exception": str(e)[:200]})
        ok = dd.period in PERIODS and ((dd.date_obj is None) == (dd.locale is None)) and \
            (dd.date_obj is None or isinstance(dd.date_obj, dates.SDateTime))
        return C.outcome(bool(ok), wit, "none" if dd.date_obj is None else "value")
    return fn


# ------------------------------------------------------------------------------------------------ token soups
SOUP = ["monday", "mon", "march", "mar", "sept", "ago", "in", "hour", "hours", "day", "week", "month", "year", "decade",
        "at", "pm", "am", "utc", "+0530", "est", "t", "z", "of", "and", "now", "today", "yesterday", "next", "last",
        ":", "-", "/", ".", ",", "(", ")", "N1", "N2", "N4", "N2:N2", "N4-N2-N2", "N2.N2", "'N2", "N2th", "-N4"]


def _soup_token(tok, pos, v):
    """token -> template parts; N<k> is a fresh symbolic k-digit field"""
    import re
    parts = []
    j = 0
    for piece in re.split(r"(N\d)", tok):
        if re.fullmatch(r"N\d", piece):
            name = "n%d_%d" % (pos, j)
            j += 1
            w = int(piece[1])
            v[name] = C.field(name, 0, 10 ** w - 1)
            parts.append((name, w))
        elif piece:
            parts.append(piece)
    return parts


def h_soup(k, first, glue=" ", second=None):
    """strings made of k tokens drawn by symbolic choice from a pool of date words, separators and numeric fields with
    symbolic digits (the 'token soups / digit-separator soups' of the quantifier, bounded)"""
    def fn():
        n = C.ns()
        idx = [first]
        if second is not None:
            idx.append(second)
        while len(idx) < k:
            idx.append(core.concretize(C.field("tok%d" % len(idx), 0, len(SOUP) - 1)))
        v = {}
        parts = []
        for pos, i in enumerate(idx):
            if pos:
                parts.append(glue)
            parts += _soup_token(SOUP[i], pos, v)
        b = C.sym_base("b", 1, 9999)
        st = {"RELATIVE_BASE": b, "PREFER_DATES_FROM": "future"}
        wit = dict(v)
        wit.update({"tok%d" % j: i for j, i in enumerate(idx)})
        wit.update(C.base_witness(b))
        s = tmpl(parts, v)
        dd = C.api(s, languages=["en"], settings=st)
        ok = dd.period in PERIODS and ((dd.date_obj is None) == (dd.locale is None)) and \
            (dd.date_obj is None or isinstance(dd.date_obj, dates.SDateTime))
        return C.outcome(bool(ok), wit, "none" if dd.date_obj is None else "value")
    return fn


# ------------------------------------------------------------------------------------------------ settings validation
def _candidates():
    import datetime
    now = datetime.datetime(2020, 1, 2, 3, 4, 5)
    T = {
        "DATE_ORDER": (["MDY", "YMD", "DYM"], ["XYZ", "mdy", "", 1, None, ["MDY"], b"MDY"]),
        "TIMEZONE": (["UTC", "+0530", "local"], [1, 5.5, ["UTC"], b"UTC"]),
        "TO_TIMEZONE": (["UTC", "-0800"], [1, True, ["UTC"]]),
        "RETURN_AS_TIMEZONE_AWARE": ([True, False], ["default", "True", 1, 0, 1.0, [True]]),
        "PREFER_MONTH_OF_YEAR": (["current", "first", "last"], ["middle", "FIRST", 1, True]),
        "PREFER_DAY_OF_MONTH": (["current", "first", "last"], ["middle", "Last", 0, False]),
        "PREFER_DATES_FROM": (["current_period", "past", "future"], ["current", "PAST", 1, ["past"]]),
        "RELATIVE_BASE": ([now], ["2020-01-02", 1577934245, now.date(), (2020, 1, 2), True]),
        "STRICT_PARSING": ([True, False], ["yes", 1, 0, 1.0, "True", [True]]),
        "REQUIRE_PARTS": ([[], ["day"], ["year", "month"]], [["week"], ["day", "day"], "day", ("day",), 1, ["Day"]]),
        "SKIP_TOKENS": ([[], ["t"], ["foo", "bar"]], ["t", ("t",), 1, True]),
        "NORMALIZE": ([True, False], [1, 0, 0.0, "False", [False]]),
        "RETURN_TIME_AS_PERIOD": ([True, False], [1, "no", 0]),
        "PARSERS": ([["absolute-time"], ["timestamp", "relative-time"]], [["absolute"], ["timestamp", "timestamp"],
                                                                          "absolute-time", ("absolute-time",), 1]),
        "FUZZY": ([True, False], [1, "yes"]),
        "PREFER_LOCALE_DATE_ORDER": ([True, False], [1, 0, "no"]),
        "DEFAULT_LANGUAGES": ([[], ["en"], ["fr", "es"]], [["xx"], ["en", "en"], "en", ("en",), ["EN"], 1]),
        "LANGUAGE_DETECTION_CONFIDENCE_THRESHOLD": ([0.0, 0.5, 1.0], [1.5, -0.1, 1, 0, "0.5", True]),
        "CACHE_SIZE_LIMIT": ([0, 1, 1000], [1000.0, "1000", [1], 1.5]),
        "NO_SUCH_SETTING": ([], [True, 1, "x"]),
        "date_order": ([], ["MDY"]),
    }
    return T


def h_settings(key):
    valid, invalid = _candidates()[key]

    def fn():
        n = C.ns()
        v = {"a": C.field("a", 0, 99)}
        s = tmpl([("a", 2), " days ago"], v)
        bad = []

        def conv(x):
            if key == "RELATIVE_BASE" and isinstance(x, _dt.datetime):
                return dates.SDateTime(x.year, x.month, x.day, x.hour, x.minute, x.second)
            return x
        # a concrete reference time keeps the clock stub (and its forks) out of these table-driven tasks
        fixed = {} if key == "RELATIVE_BASE" else {"RELATIVE_BASE": dates.SDateTime(2020, 1, 2, 3, 4, 5)}
        for hist in (valid[:1] or [None]):
            for cand, is_valid in [(c, True) for c in valid] + [(c, False) for c in invalid]:
                if hist is not None:
                    # history: a call with a valid value of the same key first
                    C.api("1 day ago", languages=["en"], settings=dict(fixed, **{key: conv(hist)}))
                st = dict(fixed, **{key: conv(cand) if is_valid else cand})
                try:
                    # an invalid value must be rejected whatever the (symbolic) string is; a valid one is exercised on
                    # a concrete string (the symbolic parse of relative phrases is C04's subject)
                    C.api("12 days ago" if is_valid else s, languages=["en"], settings=st)
                    raised = None
                except n.CONF.SettingValidationError:
                    raised = "SettingValidationError"
                except TypeError:
                    raised = "TypeError"
                if is_valid and raised:
                    bad.append((repr(cand), "valid value rejected with %s" % raised))
                if not is_valid and raised is None:
                    bad.append((repr(cand), "invalid value accepted"))
        return C.outcome(not bad, dict(v), "settings", {"bad": bad[:5]})
    return fn


PARSE_ENTRY_INVALID = [{"NO_SUCH_SETTING": 1}, {"PREFER_DATES_FROM": "sideways"}, {"STRICT_PARSING": 0}, {"TO_TIMEZONE": False},
                       {"NORMALIZE": 1}, {"CACHE_SIZE_LIMIT": 1000.0}, {"NO_SUCH_SETTING": 1, "NORMALIZE": True, "STRICT_PARSING": False}]


def h_parse_entry(idx):
    """the top-level dateparser.parse() (module-level parser, its own short cuts): an invalid setting is rejected whatever
    the date string is - blank strings included - with and without languages"""
    def fn():
        n = C.ns()
        v = {"a": C.field("a", 0, 99)}
        st = PARSE_ENTRY_INVALID[idx]
        bad = []
        for s in ("", "   ", "\t\n", tmpl([("a", 2), " days ago"], v), tmpl([("a", 2), "/03/2015"], v)):
            for kw in ({}, {"languages": ["en"]}, {"locales": ["en-GB"]}):
                try:
                    n.dateparser.parse(s, settings=dict(st), **kw)
                    bad.append((repr(s) if isinstance(s, str) else "<symbolic>", sorted(kw)))
                except n.CONF.SettingValidationError:
                    pass
        return C.outcome(not bad, dict(v), "parse-entry", {"accepted": bad[:5]})
    return fn


# ------------------------------------------------------------------------------------------------ task lists
def tasks(tier, seed):
    out = []
    quick = tier == "quick"

    def add(name, fn, args, budget=150):
        out.append({"name": name, "fn": fn, "args": args, "budget_s": budget if quick else budget * 8,
                    "max_paths": 3000 if quick else 100000})
    names = sorted(TEMPLATES)
    bases = ["naive", "aware0", "aware330", "aware-720", "clock"]
    if quick:
        # a seed-rotated third of the templates per run (all of them in the thorough tier)
        names = [t for i, t in enumerate(names) if (i + seed) % 3 == 0]
    for i, t in enumerate(names):
        combos = []
        if quick:
            combos.append((bases[(i + seed) % len(bases)], TZ_POOL[(i + seed) % len(TZ_POOL)], TZ_POOL[(i * 3 + seed + 1) % len(TZ_POOL)]))
        else:
            for bi, bk in enumerate(bases):
                combos.append((bk, TZ_POOL[(i + bi) % len(TZ_POOL)], TZ_POOL[(i * 3 + bi + 1) % len(TZ_POOL)]))
        for bk, tz, to in combos:
            parsers = None
            if t == "neg_epoch":
                parsers = ["negative-timestamp", "timestamp", "relative-time", "absolute-time"]
            if t in ("digits8", "digits6"):
                parsers = ["timestamp", "relative-time", "absolute-time", "no-spaces-time"]
            add("total:%s:%s:%s>%s" % (t, bk, tz, to), "h_total", {"template": t, "base_kind": bk, "tz": tz, "to_tz": to,
                                                                   "parsers": parsers, "aware": [None, True, False][(i + seed) % 3]},
                90)
    for i in (range(len(PARSE_ENTRY_INVALID)) if not quick else [seed % len(PARSE_ENTRY_INVALID), (seed + 3) % len(PARSE_ENTRY_INVALID), 6]):
        add("parse-entry:%d" % i, "h_parse_entry", {"idx": i}, 60)
    # every parser kind in the LAST position of PARSERS (what the last parser reports when nothing matches must not leak)
    ALLP = ["timestamp", "negative-timestamp", "relative-time", "custom-formats", "absolute-time", "no-spaces-time"]
    plists = [[p for p in ALLP if p != last][(seed + k) % 5:][:2] + [last] for k, last in enumerate(ALLP)]
    ptempl = ["slash_yy", "hm", "digits6", "years_ago", "d_month", "epoch13"]
    for k, pl in enumerate(plists):
        for t in ([ptempl[(k + seed) % len(ptempl)]] if quick else ptempl):
            add("total-parsers:%s:%s" % ("+".join(pl), t), "h_total", {"template": t, "base_kind": "naive", "tz": None, "to_tz": None,
                                                                      "parsers": pl}, 90)
    # the classic end-of-range inputs are always visited
    add("total:iso_dt_tz-:naive:UTC>None:edge", "h_total", {"template": "iso_dt_tz-", "base_kind": "naive", "tz": "UTC", "to_tz": None}, 90)
    add("total:time_only:clock:-1200>+0530:edge", "h_total", {"template": "time_only", "base_kind": "clock", "tz": "-1200", "to_tz": "+0530"}, 60)
    add("total:weekday:naive:+1400>-1200:edge", "h_total", {"template": "weekday", "base_kind": "naive", "tz": "+1400", "to_tz": "-1200"}, 60)
    add("total:years_ago:aware330:UTC>UTC+03:00:edge", "h_total", {"template": "years_ago", "base_kind": "aware330", "tz": "UTC", "to_tz": "UTC+03:00"}, 60)
    # tz-database zones with transitions: pytz's own localize/utcoffset run symbolically (reference inside one year so that
    # the transition table search stays small); gaps and repeated hours are INSIDE the quantifier here - nothing may escape
    dz = ["America/New_York", "Europe/Paris", "Australia/Lord_Howe", "Asia/Kolkata"]
    for j, z in enumerate(dz if not quick else [dz[seed % len(dz)]]):
        for t in (("hm", "time_only", "iso_dt", "hours_ago_tz") if not quick else ("hm",)):
            add("total-dst:%s:%s" % (t, z), "h_total", {"template": t, "base_kind": "naive", "tz": z, "to_tz": None if j % 2 else "UTC",
                                                         "base_years": [2021, 2021],
                                                         "ranges": {"e": [0, 23], "f": [0, 59]} if t == "hm" else None,
                                                         "prefs": {"PREFER_DATES_FROM": ["future", "past"][j % 2]}}, 200)
    for key in sorted(_candidates()):
        add("settings:%s" % key, "h_settings", {"key": key}, 200)
    # token soups: quick = all 2-token strings starting with a seed-rotated eighth of the pool; thorough = all 2-token
    # strings with both glues and the 3-token strings (split by the first two tokens)
    firsts = range(len(SOUP))
    if quick:
        firsts = [i for i in firsts if (i + seed) % 8 == 0]
    for i in firsts:
        add("soup:2:%s" % SOUP[i], "h_soup", {"k": 2, "first": i}, 120)
        if not quick:
            add("soup:2:%s:glued" % SOUP[i], "h_soup", {"k": 2, "first": i, "glue": ""}, 120)
    if not quick:
        for i in range(len(SOUP)):
            for j in range(len(SOUP)):
                if (i + j + seed) % 5 == 0:     # a seed-rotated fifth of the 2,025 (first, second) pairs per run
                    add("soup:3:%s %s" % (SOUP[i], SOUP[j]), "h_soup", {"k": 3, "first": i, "second": j}, 12)
    return out


# ------------------------------------------------------------------------------------------------ replay side
def build_spec(task, viol):
    w = C.ints(viol["witness"])
    a = task["args"]
    if task["fn"] == "h_settings":
        return {"task": task["name"], "fn": "h_settings", "key": a["key"], "witness": w}
    if task["fn"] == "h_parse_entry":
        return {"task": task["name"], "fn": "h_parse_entry", "idx": a["idx"], "witness": w}
    if task["fn"] == "h_soup":
        idx = [a["first"]] + ([a["second"]] if a.get("second") is not None else [])
        while len(idx) < a["k"]:
            idx.append(w["tok%d" % len(idx)])
        parts, v = [], {}

        class _F:   # render needs only names/widths
            pass
        import re
        for pos, i in enumerate(idx):
            if pos:
                parts.append(a.get("glue", " "))
            j = 0
            for piece in re.split(r"(N\d)", SOUP[i]):
                if re.fullmatch(r"N\d", piece):
                    parts.append(("n%d_%d" % (pos, j), int(piece[1])))
                    j += 1
                elif piece:
                    parts.append(piece)
        st = {"RELATIVE_BASE": C.base_from_witness(w), "PREFER_DATES_FROM": "future"}
        return {"task": task["name"], "fn": "h_total", "witness": w, "clock": None,
                "call": {"string": render(parts, w), "languages": ["en"], "settings": st}}
    st = C.spec_settings(dict(a.get("prefs") or {}), w)
    if a["tz"]:
        st["TIMEZONE"] = a["tz"]
    if a["to_tz"]:
        st["TO_TIMEZONE"] = a["to_tz"]
    if a.get("parsers"):
        st["PARSERS"] = a["parsers"]
    if a.get("aware") is not None:
        st["RETURN_AS_TIMEZONE_AWARE"] = a["aware"]
    if a["base_kind"] == "clock":
        st.pop("RELATIVE_BASE", None)
    elif a["base_kind"].startswith("aware") and st.get("RELATIVE_BASE"):
        st["RELATIVE_BASE"] = {"f": st["RELATIVE_BASE"], "off": int(a["base_kind"][5:]) * 60}
    return {"task": task["name"], "fn": "h_total", "witness": w, "clock": C.clock_from_witness(w),
            "call": {"string": render(TEMPLATES[a["template"]], w), "languages": ["en"], "settings": st}}


def native_check(spec):
    from symx import native
    if spec["fn"] == "h_parse_entry":
        dateparser = native.import_repo()
        from dateparser.conf import SettingValidationError
        st = PARSE_ENTRY_INVALID[spec["idx"]]
        a_ = spec["witness"].get("a", 1)
        bad = []
        for s in ("", "   ", "\t\n", "%02d days ago" % a_, "%02d/03/2015" % a_):
            for kw in ({}, {"languages": ["en"]}, {"locales": ["en-GB"]}):
                try:
                    r = dateparser.parse(s, settings=dict(st), **kw)
                    bad.append("parse(%r, settings=%r%s) -> %r (no SettingValidationError)" % (s, st, "".join(", %s=%r" % i for i in kw.items()), r))
                except SettingValidationError:
                    pass
                except Exception as e:  # noqa
                    bad.append("parse(%r, settings=%r) raised %s" % (s, st, type(e).__name__))
        return {"violates": bool(bad), "detail": "invalid setting accepted by the top-level parse(): " + "; ".join(bad[:3])}
    if spec["fn"] == "h_settings":
        native.import_repo()
        from dateparser.date import DateDataParser
        from dateparser.conf import SettingValidationError
        key = spec["key"]
        valid, invalid = _candidates()[key]
        bad = []
        s = "%02d days ago" % spec["witness"].get("a", 1)
        for cand, is_valid in [(c, True) for c in valid] + [(c, False) for c in invalid]:
            if valid:
                DateDataParser(languages=["en"], settings={key: valid[0]}).get_date_data("1 day ago")
            try:
                DateDataParser(languages=["en"], settings={key: cand}).get_date_data(s)
                raised = None
            except SettingValidationError:
                raised = "SettingValidationError"
            except TypeError:
                raised = "TypeError"
            except Exception as e:  # noqa
                raised = "other:" + type(e).__name__
            if (is_valid and raised) or (not is_valid and raised is None) or (raised or "").startswith("other"):
                bad.append("%s=%r: %s" % (key, cand, raised or "accepted"))
        return {"violates": bool(bad), "detail": "settings validation: " + "; ".join(bad[:4])}
    res = native.call_api(spec["call"], spec.get("clock"))
    desc = "get_date_data(%r, languages=['en'], settings=%r, clock=%r)" % (spec["call"]["string"], spec["call"]["settings"], spec.get("clock"))
    if "exception" in res:
        return {"violates": True, "detail": "%s raised %s" % (desc, res["exception"]), "exc_type": res["exc_type"]}
    ok = res["period"] in PERIODS and ((res["date_obj"] is None) == (res["locale"] is None)) and \
        (res["date_obj"] is None or isinstance(res["date_obj"], _dt.datetime))
    return {"violates": not ok, "detail": "%s -> %r" % (desc, res)}


def classify_known(spec, verdict, known):
    return None
