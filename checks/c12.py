"""C12 — timezone settings preserve the instant; awareness follows the setting (symx, public API entry)."""
import datetime as _dt
import re
import sys

import z3

from symx import core, dates
from symx.core import _zi, mkbool
from symx.tmpl import tmpl, render
from . import common as C

ID = "C12"
ENCODED = ["dateparser.date.DateDataParser.get_date_data", "dateparser.date.get_date_from_timestamp",
           "dateparser.date.parse_with_formats", "dateparser.date_parser.DateParser.parse (tz pipeline, awareness)",
           "dateparser.freshness_date_parser.FreshnessDateDataParser.parse (tz pipeline)",
           "dateparser.utils.localize_timezone/apply_timezone/apply_dateparser_timezone/apply_tzdatabase_timezone/"
           "apply_timezone_from_settings/get_timezone_from_tz_string", "dateparser.timezone_parser.StaticTzInfo/"
           "pop_tz_offset_from_string", "pytz fixed-offset zone objects (real objects, offsets read through utcoffset)"]
ASSUMPTIONS = [
    "zones WITH transitions (tz-database names): pytz's own DstTzInfo.localize/normalize/fromutc/utcoffset code is "
    "re-imported through the loader and executed symbolically (bisect over the transition table forks per interval); "
    "6 zones, local date-times in a window (quick 2021, thorough 1971-2036) that are neither in a gap nor ambiguous (for "
    "the relative parser also: no transition between the reference and the result - wall-clock vs elapsed-time "
    "arithmetic across a transition is not specified); "
    "the oracle is a transition table derived from the stdlib zoneinfo (system tzdata), independent of pytz",
    "homonyms: every tz-database zone (pytz.common_timezones) that calls itself, inside the window, by an abbreviation the "
    "library's table lists with a different offset, paired with that abbreviation as TO_TIMEZONE (quick: 2 pairs)",
    "process-local zone with transitions: tzlocal's get_localzone() is stubbed by a model of the zoneinfo object it "
    "returns (offset look-ups by wall clock with fold=0 and by instant, from the same zoneinfo-derived table; look-ups "
    "fork per interval); datetime.now()/fromtimestamp()/astimezone() without a zone go through it; the clock is assumed "
    "to lie inside the table's window; module-level constants derived from the local offset at import time are set to "
    "the offset in force at the clock instant (the process has just started); replayed natively with the TZ environment "
    "variable set and those constants re-evaluated under the frozen clock",
    "bounded claim: ordered pairs drawn from a pool of FIXED-OFFSET zone spellings (pytz UTC, table offsets and static "
    "abbreviations that are not tz-database names, 'local' = the stubbed process zone UTC); zones with DST transitions "
    "- in this pytz that includes names such as 'EST' - are outside (pytz searches transition tables in C): DESIGN.md",
    "local date-times 1950-2037 as the property states (fully symbolic for the timestamp, relative and custom-format "
    "parsers; the absolute parser with the time of day symbolic on a fixed date, and fully symbolic for selected pairs)",
    "expected value: wall clock shifted by off(target) - off(source), computed on (ordinal, µs-of-day) pairs with "
    "offsets derived independently from the zone spelling; awareness per the statement's table",
    "date theory (symx.dates) stands for CPython datetime/calendar; symbolic regex stands for re/regex on templates",
]
ZONES = ["UTC", "+0530", "-0800", "PST", "AEST", "UTC+03:00", "+1245", "local", "-0330", "aest", "UTC-09:30"]
_ABBR = {"PST": -8 * 3600, "AEST": 10 * 3600, "EST": -5 * 3600, "aest": 10 * 3600}
AWARE = [None, True, False]


LOCAL_ZONE = [None]      # tz-database name of the process-local zone for the running task (None: UTC)


def off_s(tz):
    if tz in ("UTC", "local", None):
        return 0
    if tz in _ABBR:
        return _ABBR[tz]
    m = re.fullmatch(r"Etc/GMT([+-])(\d+)", tz)
    if m:
        return (-1 if m.group(1) == "+" else 1) * int(m.group(2)) * 3600
    m = re.fullmatch(r"(?:UTC|GMT)?([+-])(\d\d?):?(\d\d)", tz)
    if m:
        return (1 if m.group(1) == "+" else -1) * (int(m.group(2)) * 3600 + int(m.group(3)) * 60)
    raise ValueError(tz)


def _settings(A, B, aware):
    st = {}
    if A != "local":
        st["TIMEZONE"] = A
    if B is not None:
        st["TO_TIMEZONE"] = B
    if aware is not None:
        st["RETURN_AS_TIMEZONE_AWARE"] = aware
    return st


def _shifted(o, r, delta_s):
    t = r + delta_s * 1000000
    c = z3.If(t < 0, -1, z3.If(t >= dates.K_DAY, 1, 0))
    # |delta| < 2 days: at most one carry step in each direction is not enough for 26 h; use floor division on the
    # small linear term instead (t is within (-2, 3) days)
    c = z3.If(t < -dates.K_DAY, -2, z3.If(t < 0, -1, z3.If(t >= 2 * dates.K_DAY, 2, z3.If(t >= dates.K_DAY, 1, 0))))
    return o + c, t - c * dates.K_DAY


def _post(dd, do, o, r, src_off, A, B, aware, named):
    """o, r: written wall clock as pair; src_off: offset the written wall clock is in"""
    final = B if B is not None else (A if (named is None or A != "local") else None)
    final_off = off_s(final) if final is not None else src_off
    eo, er = _shifted(o, r, final_off - src_off)
    want_aware = aware is True or (aware is None and named is not None)
    if do is None:
        return False
    conds = [do._ord() == eo, do._us_of_day() == er]
    if want_aware:
        if do.tzinfo is None:
            return False
        got = do.tzinfo.utcoffset(None) if not hasattr(do.tzinfo, "_utcoffset") else do.tzinfo._utcoffset
        conds.append(bool(got == _dt.timedelta(seconds=final_off)))
    else:
        conds.append(do.tzinfo is None)
    return z3.And(*conds)


def h_absolute(A, B, aware, named=None, full=False):
    def fn():
        if full:
            v = C.date_fields(ymin=1950, ymax=2037)
            parts = [("Y", 4), "-", ("m", 2), "-", ("d", 2), " ", ("H", 2), ":", ("M", 2)]
        else:
            v = {"Y": 2014, "m": 3, "d": 9}
            parts = ["2014-03-09 ", ("H", 2), ":", ("M", 2)]
        v.update(C.time_fields("", "HM"))
        if named:
            parts = parts + [" " + named]
        s = tmpl(parts, v)
        dd = C.api(s, languages=["en"], settings=_settings(A, B, aware))
        o = dates.z_ord(_zi(v["Y"]), _zi(v["m"]), _zi(v["d"]))
        r = dates.z_tod(_zi(v["H"]), _zi(v["M"]), 0, 0)
        src = off_s(named) if named else off_s(A)
        return C.outcome(_post(dd, dd.date_obj, o, r, src, A, B, aware, named), dict(v), "abs")
    return fn


def h_format(A, B, aware):
    def fn():
        v = C.date_fields(ymin=1950, ymax=2037)
        v.update(C.time_fields("", "HMS"))
        s = tmpl([("Y", 4), "-", ("m", 2), "-", ("d", 2), " ", ("H", 2), ":", ("M", 2), ":", ("S", 2)], v)
        dd = C.api(s, languages=["en"], settings=_settings(A, B, aware), date_formats=["%Y-%m-%d %H:%M:%S"])
        o = dates.z_ord(_zi(v["Y"]), _zi(v["m"]), _zi(v["d"]))
        r = dates.z_tod(_zi(v["H"]), _zi(v["M"]), _zi(v["S"]), 0)
        return C.outcome(_post(dd, dd.date_obj, o, r, off_s(A), A, B, aware, None), dict(v), "fmt")
    return fn


def h_timestamp(A, B, aware):
    def fn():
        n = C.field("n", 10 ** 9, 2145916799)       # 2001-09-09 .. 2037-12-31 (10-digit epochs)
        ms = C.field("ms", 0, 999)
        s = tmpl([("n", 10), ("ms", 3)], {"n": n, "ms": ms})
        dd = C.api(s, languages=["en"], settings=_settings(A, B, aware))
        o = dates.EPOCH_ORD + _zi(n) / 86400
        r = (_zi(n) % 86400) * 1000000 + _zi(ms) * 1000
        # the written instant is UTC
        return C.outcome(_post(dd, dd.date_obj, o, r, 0, A, B, aware, None), {"n": n, "ms": ms}, "ts")
    return fn


def h_relative(A, B, aware, named=None):
    def fn():
        b = C.sym_base("b", 1950, 2037)
        n = C.field("n", 0, 99)
        s = tmpl([("n", 2), " hours ago" + ((" " + named) if named else "")], {"n": n})
        st = _settings(A, B, aware)
        st["RELATIVE_BASE"] = b
        dd = C.api(s, languages=["en"], settings=st)
        t = b._us_of_day() - _zi(n) * 3600 * 1000000
        o = b._ord() + t / dates.K_DAY
        r = t % dates.K_DAY
        wit = dict(C.base_witness(b), n=n)
        if named:
            # the reference is in A; a zone written in the phrase re-expresses the result in that zone (then B)
            return C.outcome(_post(dd, dd.date_obj, o, r, off_s(A), named, B, aware, named), wit, "rel-named")
        return C.outcome(_post(dd, dd.date_obj, o, r, off_s(A), A, B, aware, None), wit, "rel")
    return fn


# ------------------------------------------------------------------------------------------------ zones with transitions
DST_ZONES = ["America/New_York", "Europe/Paris", "Australia/Lord_Howe", "America/St_Johns", "Asia/Kolkata", "Africa/Casablanca"]


def _is_dst_name(z):
    return z is not None and "/" in z


def _zone_of(z):
    """'local' stands for the process zone of the task"""
    return LOCAL_ZONE[0] if (z == "local" and LOCAL_ZONE[0]) else z


def homonyms(y0, y1):
    """[(tz-database zone, abbreviation, listed offset)]: the zone calls itself by an abbreviation, within the window,
    that the library's table lists with a DIFFERENT offset (e.g. Asia/Shanghai 'CST' +08:00 vs table CST -06:00)"""
    import pytz
    from . import zones, c11
    listed = dict(c11.load_table()[0])
    lo, hi = _dt.datetime(y0, 1, 1), _dt.datetime(y1, 12, 31)
    out = []
    for zn in pytz.common_timezones:
        tz = pytz.timezone(zn)
        tt, ti = getattr(tz, "_utc_transition_times", None), getattr(tz, "_transition_info", None)
        if not tt:
            continue
        names = set()
        for i, (t, inf) in enumerate(zip(tt, ti)):
            nxt = tt[i + 1] if i + 1 < len(tt) else _dt.datetime.max
            if nxt > lo and t < hi:
                names.add((inf[2], int(inf[0].total_seconds())))
        for nm, off in sorted(names):
            if nm in listed and listed[nm] != off and zones.usable(zn, y0 - 1, y1 + 1):
                out.append((zn, nm, listed[nm]))
    return out


def _to_utc(zone, o, r, y0, y1):
    """wall clock (o, r) in `zone` -> (assumption, utc pair, offset term)"""
    from . import zones
    if _is_dst_name(zone):
        ok, uo, ur, off = zones.z_local_to_utc(zones.table(zone, y0 - 1, y1 + 1), o, r)
        return ok, uo, ur, off
    off = off_s(zone)
    uo, ur = zones._shift(o, r, -off)
    return z3.BoolVal(True), uo, ur, z3.IntVal(off)


def _from_utc(zone, uo, ur, y0, y1):
    from . import zones
    if _is_dst_name(zone):
        off = zones.z_offset_at_utc(zones.table(zone, y0 - 1, y1 + 1), uo, ur)
    else:
        off = z3.IntVal(off_s(zone))
    o, r = zones._shift(uo, ur, off)
    return o, r, off


def _tz_seconds(tz):
    off = getattr(tz, "_utcoffset", None)
    if off is None:
        off = tz.utcoffset(None)
    return off.days * 86400 + off.seconds


def h_dst(parser, A, B, aware, y0, y1, b_off=None, local=None):
    """the four parsers with tz-database zones that have transitions: pytz's own localize/normalize/fromutc code is
    executed symbolically; the oracle is a transition table derived from zoneinfo.  b_off: listed offset of the
    abbreviation B.  local: tz-database name of the process-local zone (A == 'local' then means that zone; the zone
    object tzlocal would return is the SymZone stub built from the same zoneinfo-derived table)"""
    if b_off is not None:
        _ABBR[B] = b_off
    A_set = A

    def fn():
        from . import zones
        LOCAL_ZONE[0] = local
        if local:
            dates.set_local(dates.SymZone(local, zones.table(local, y0 - 1, y1 + 1)))
            clk = dates.SDateTime._clock()
            # stated bound: the clock lies inside the window the zone table covers
            core.assume(mkbool(z3.And(_zi(clk.year) >= y0, _zi(clk.year) <= y1)))
            # module-level state computed at import ("now" of a process that has just started): the local offset constant
            n = C.ns()
            off_now = _dt.timedelta(seconds=dates.LOCAL[0].offset_s_utc(clk))
            for mod in list(sys.modules.values()):
                if getattr(mod, "__name__", "").split(".")[0] == "dateparser" and hasattr(mod, "local_tz_offset"):
                    mod.local_tz_offset = off_now
        st = _settings(A_set, B, aware)
        return _h_dst_body(parser, _zone_of(A_set), B, aware, y0, y1, st)
    return fn


def _h_dst_body(parser, A, B, aware, y0, y1, st):
    if True:
        if parser == "timestamp":
            lo = int((_dt.datetime(y0, 1, 2) - _dt.datetime(1970, 1, 1)).total_seconds())
            hi = int((_dt.datetime(y1, 12, 30) - _dt.datetime(1970, 1, 1)).total_seconds())
            n = C.field("n", max(lo, 10 ** 9), min(hi, 10 ** 10 - 1))
            s = tmpl([("n", 10)], {"n": n})
            wit = {"n": n}
            dd = C.api(s, languages=["en"], settings=st)
            uo, ur = dates.EPOCH_ORD + _zi(n) / 86400, (_zi(n) % 86400) * 1000000
            src_off = None
            if _is_dst_name(A):
                # the property quantifies over local times that are neither in a gap nor ambiguous: the instant's wall
                # clock in TIMEZONE must be such a time (the library goes through that wall clock)
                lo_, lr_, _ = _from_utc(A, uo, ur, y0, y1)
                pre, _, _, _ = _to_utc(A, lo_, lr_, y0, y1)
                core.assume(mkbool(pre))
        else:
            v = C.date_fields(ymin=y0, ymax=y1)
            v.update(C.time_fields("", "HMS" if parser != "absolute" else "HM"))
            wit = dict(v)
            o = dates.z_ord(_zi(v["Y"]), _zi(v["m"]), _zi(v["d"]))
            r = dates.z_tod(_zi(v["H"]), _zi(v["M"]), _zi(v.get("S", 0)), 0)
            pre, uo, ur, src_off = _to_utc(A, o, r, y0, y1)
            core.assume(mkbool(pre))      # neither in a DST gap nor ambiguous, as the property states
            if parser == "format":
                s = tmpl([("Y", 4), "-", ("m", 2), "-", ("d", 2), " ", ("H", 2), ":", ("M", 2), ":", ("S", 2)], v)
                dd = C.api(s, languages=["en"], settings=st, date_formats=["%Y-%m-%d %H:%M:%S"])
            elif parser == "absolute":
                s = tmpl([("Y", 4), "-", ("m", 2), "-", ("d", 2), " ", ("H", 2), ":", ("M", 2)], v)
                dd = C.api(s, languages=["en"], settings=st)
            else:
                nn = C.field("k", 0, 99)
                wit["k"] = nn
                b = dates.SDateTime(v["Y"], v["m"], v["d"], v["H"], v["M"], v["S"], 0, _trusted=True)
                st["RELATIVE_BASE"] = b
                dd = C.api(tmpl([("k", 2), " hours ago"], {"k": nn}), languages=["en"], settings=st)
                # instant = instant(reference) - k hours (wall-clock arithmetic on the reference's own offset)
                from . import zones
                uo, ur = _shift_hours(uo, ur, -_zi(nn))
                o, r = _shift_hours(o, r, -_zi(nn))
                # whether 'k hours ago' is wall-clock or elapsed-time arithmetic across a transition is not specified:
                # the shifted wall clock must be an unambiguous local time carrying the reference's offset
                pre2, _, _, off2 = _to_utc(A, o, r, y0, y1)
                core.assume(mkbool(z3.And(pre2, off2 == src_off)))
        do = dd.date_obj
        if do is None:
            return C.outcome(False, wit, "none")
        if B is not None:
            eo, er, eoff = _from_utc(B, uo, ur, y0, y1)
        elif parser == "timestamp":
            eo, er, eoff = _from_utc(A, uo, ur, y0, y1)
        else:
            eo, er, eoff = o, r, src_off
        conds = [do._ord() == eo, do._us_of_day() == er]
        want_aware = aware is True
        if want_aware:
            if do.tzinfo is None:
                return C.outcome(False, wit, "naive")
            if not (parser == "relative" and B is None):
                # (relative without TO_TIMEZONE keeps the reference's own offset instance: only the wall clock is specified)
                if isinstance(do.tzinfo, dates.SymZone):
                    conds.append(eoff == do.tzinfo.offset_s_wall(do))
                else:
                    conds.append(eoff == _tz_seconds(do.tzinfo))
        elif do.tzinfo is not None:
            return C.outcome(False, wit, "aware")
        return C.outcome(z3.And(*conds), wit, "dst")


def _shift_hours(o, r, hours):
    t = r + hours * 3600 * 1000000
    return o + t / dates.K_DAY, t % dates.K_DAY


def tasks(tier, seed):
    out = []
    quick = tier == "quick"

    def add(name, fn, args, budget=200):
        out.append({"name": name, "fn": fn, "args": args, "budget_s": budget if quick else budget * 5, "max_paths": 5000})
    pairs = [(A, B) for A in ZONES for B in ZONES + [None] if B != "local"]
    if quick:
        # every zone spelling once as TIMEZONE and once as TO_TIMEZONE (partner rotated by the seed), plus a rotating rest
        n = len(ZONES)
        ring = [(ZONES[i], ZONES[(i + 1 + seed % (n - 1)) % n]) for i in range(n)]
        ring = [(A, B) for A, B in ring if B != "local"] + [(ZONES[(seed + 3) % n], None)]
        k = 5
        pairs = ring + [p for p in [pairs[(seed * k + 7 * j) % len(pairs)] for j in range(k)] if p not in ring]
    for j, (A, B) in enumerate(pairs):
        for aw in (AWARE if not quick else [AWARE[(j + seed) % 3]]):
            tag = "%s>%s:%s" % (A, B, aw)
            add("timestamp:" + tag, "h_timestamp", {"A": A, "B": B, "aware": aw})
            add("relative:" + tag, "h_relative", {"A": A, "B": B, "aware": aw})
            add("format:" + tag, "h_format", {"A": A, "B": B, "aware": aw})
            add("absolute:" + tag, "h_absolute", {"A": A, "B": B, "aware": aw})
    named = ["+0300", "EST", "UTC-09:30", "GMT+5:30"]
    npairs = pairs if not quick else pairs[:4]
    for j, (A, B) in enumerate(npairs):
        z = named[(j + seed) % len(named)]
        for aw in (AWARE if not quick else [AWARE[(j + seed + 1) % 3]]):
            add("absolute-named:%s:%s>%s:%s" % (z, A, B, aw), "h_absolute", {"A": A, "B": B, "aware": aw, "named": z})
    # TO_TIMEZONE equal to TIMEZONE while the phrase names another zone: the conversion back must still happen
    for j, z0 in enumerate(["UTC", "+0530", "PST"] if not quick else [["UTC", "+0530", "PST"][seed % 3]]):
        z = named[(j + seed) % len(named)]
        for aw in (AWARE if not quick else [AWARE[(j + seed) % 3]]):
            add("relative-named:%s:%s>%s:%s" % (z, z0, z0, aw), "h_relative", {"A": z0, "B": z0, "aware": aw, "named": z})
            add("absolute-named:%s:%s>%s:%s" % (z, z0, z0, aw), "h_absolute", {"A": z0, "B": z0, "aware": aw, "named": z})
    for j, (A, B) in enumerate(npairs):
        if A == "local":
            continue   # naive reference + zone in the phrase + no TIMEZONE: the reference's zone is not determined by the property
        z = named[(j + seed + 1) % len(named)]
        for aw in AWARE:
            add("relative-named:%s:%s>%s:%s" % (z, A, B, aw), "h_relative", {"A": A, "B": B, "aware": aw, "named": z})
    # tz-database zones with transitions (pytz's own code runs symbolically); window of local date-times
    y0, y1 = (2021, 2021) if quick else (1971, 2036)
    fixed = ["UTC", "+0530", None]
    from . import zones
    DZ = [z for z in DST_ZONES if zones.usable(z, y0 - 1, y1 + 1)]      # zoneinfo and pytz data must agree on the window
    if quick and len(DZ) >= 2:
        A = DZ[seed % len(DZ)]
        A2 = DZ[(seed + 1) % len(DZ)]
        for parser, a_, b_, aw in (("timestamp", A, "UTC", None), ("format", A, fixed[seed % 3], True), ("relative", A, "UTC", False),
                                   ("timestamp", A2, A, True), ("format", A2, A, None), ("timestamp", "UTC", A2, True)):
            add("dst:%s:%s>%s:%s" % (parser, a_, b_, aw), "h_dst", {"parser": parser, "A": a_, "B": b_, "aware": aw, "y0": y0, "y1": y1}, 150)
    elif not quick:
        for j, A in enumerate(DZ):
            others = [z for z in DZ if z != A]
            for B in fixed + others:
                for parser in ("timestamp", "relative", "format") + (("absolute",) if j < 2 and B in (None, "UTC") else ()):
                    aw = AWARE[(j + len(parser) + seed) % 3]
                    add("dst:%s:%s>%s:%s" % (parser, A, B, aw), "h_dst", {"parser": parser, "A": A, "B": B, "aware": aw, "y0": y0, "y1": y1}, 150)
            add("dst:timestamp:UTC>%s" % A, "h_dst", {"parser": "timestamp", "A": "UTC", "B": A, "aware": True, "y0": y0, "y1": y1}, 120)
    # zones that call themselves by an abbreviation the library lists with another offset (target given as abbreviation)
    hom = homonyms(y0, y1) if not quick else homonyms(2021, 2021)
    if quick and hom:
        hom = [hom[(seed * 2 + j * 5) % len(hom)] for j in range(2)]
    for j, (zn, ab, off) in enumerate(hom):
        for parser in (("format", "timestamp") if not quick else (("format", "timestamp")[(seed + j) % 2],)):
            add("dst-homonym:%s:%s>%s" % (parser, zn, ab), "h_dst", {"parser": parser, "A": zn, "B": ab, "aware": AWARE[(j + seed) % 3],
                                                                     "y0": y0, "y1": y1, "b_off": off}, 100 if not quick else 200)
    # the process-local zone (TZ environment) has transitions: TIMEZONE='local' (also the default) must mean that zone
    if DZ:
        locs = [DZ[(seed + 2) % len(DZ)]] if quick else DZ
        for j, L in enumerate(locs):
            combos = [("absolute", "UTC", None), ("format", None, True), ("timestamp", None, True), ("relative", "UTC", False),
                      ("absolute", None, True), ("format", "+0530", None), ("timestamp", "UTC", False)]
            if quick:
                combos = [combos[(seed + j) % 7], combos[(seed + j + 3) % 7], combos[(seed + j + 5) % 7]]
            for parser, B, aw in combos:
                add("dst-local:%s:%s>%s:%s" % (parser, L, B, aw), "h_dst", {"parser": parser, "A": "local", "B": B, "aware": aw,
                                                                            "y0": y0, "y1": y1, "local": L}, 100 if not quick else 200)
    for j in range(1 if quick else 6):
        A, B = pairs[(seed + 5 * j) % len(pairs)]
        add("absolute-full:%s>%s" % (A, B), "h_absolute", {"A": A, "B": B, "aware": AWARE[j % 3], "full": True}, 400)
    return out


def build_spec(task, viol):
    w = C.ints(viol["witness"])
    a = task["args"]
    fn = task["fn"]
    st = _settings(a["A"], a["B"], a["aware"])
    fmts = None
    if fn == "h_dst":
        p = a["parser"]
        if p == "timestamp":
            s = "%010d" % w["n"]
        elif p == "format":
            s = "%04d-%02d-%02d %02d:%02d:%02d" % (w["Y"], w["m"], w["d"], w["H"], w["M"], w["S"])
            fmts = ["%Y-%m-%d %H:%M:%S"]
        elif p == "absolute":
            s = "%04d-%02d-%02d %02d:%02d" % (w["Y"], w["m"], w["d"], w["H"], w["M"])
        else:
            s = "%02d hours ago" % w["k"]
            st["RELATIVE_BASE"] = [w["Y"], w["m"], w["d"], w["H"], w["M"], w["S"], 0]
        return {"task": task["name"], "witness": w, "clock": C.clock_from_witness(w) if a.get("local") else None, "args": a,
                "dst": True, "call": {"string": s, "languages": ["en"], "settings": st, "date_formats": fmts,
                                      "local_zone": a.get("local")}}
    if fn == "h_absolute":
        if a.get("full"):
            s = "%04d-%02d-%02d %02d:%02d" % (w["Y"], w["m"], w["d"], w["H"], w["M"])
            wall = [w["Y"], w["m"], w["d"], w["H"], w["M"], 0, 0]
        else:
            s = "2014-03-09 %02d:%02d" % (w["H"], w["M"])
            wall = [2014, 3, 9, w["H"], w["M"], 0, 0]
        if a.get("named"):
            s += " " + a["named"]
        src = off_s(a["named"]) if a.get("named") else off_s(a["A"])
    elif fn == "h_format":
        s = "%04d-%02d-%02d %02d:%02d:%02d" % (w["Y"], w["m"], w["d"], w["H"], w["M"], w["S"])
        wall = [w["Y"], w["m"], w["d"], w["H"], w["M"], w["S"], 0]
        src = off_s(a["A"])
        fmts = ["%Y-%m-%d %H:%M:%S"]
    elif fn == "h_timestamp":
        s = "%010d%03d" % (w["n"], w["ms"])
        e = _dt.datetime(1970, 1, 1) + _dt.timedelta(seconds=w["n"], milliseconds=w["ms"])
        wall = [e.year, e.month, e.day, e.hour, e.minute, e.second, e.microsecond]
        src = 0
    else:
        s = "%02d hours ago" % w["n"] + ((" " + a["named"]) if a.get("named") else "")
        b = _dt.datetime(*C.base_from_witness(w)) - _dt.timedelta(hours=w["n"])
        wall = [b.year, b.month, b.day, b.hour, b.minute, b.second, b.microsecond]
        src = off_s(a["A"])
        st["RELATIVE_BASE"] = C.base_from_witness(w)
    return {"task": task["name"], "witness": w, "clock": None, "args": a, "wall": wall, "src_off": src,
            "call": {"string": s, "languages": ["en"], "settings": st, "date_formats": fmts}}


def _native_dst(spec):
    from symx import native
    from . import zones
    a, w = spec["args"], spec["witness"]
    if a.get("b_off") is not None:
        _ABBR[a["B"]] = a["b_off"]
    res = native.call_api(spec["call"], spec.get("clock"))
    desc = "parse(%r, formats=%r, settings=%r)%s" % (spec["call"]["string"], spec["call"].get("date_formats"), spec["call"]["settings"],
                                                    (" with TZ=%s, clock(UTC)=%s" % (a["local"], spec.get("clock"))) if a.get("local") else "")
    if "exception" in res:
        return {"violates": True, "detail": "%s raised %s" % (desc, res["exception"])}
    y0, y1, A, B, p = a["y0"], a["y1"], a["A"], a["B"], a["parser"]
    if A == "local" and a.get("local"):
        A = a["local"]

    def to_utc(zone, wall):
        if _is_dst_name(zone):
            return zones.local_to_utc_native(zones.table(zone, y0 - 1, y1 + 1), wall)
        return True, wall - _dt.timedelta(seconds=off_s(zone)), off_s(zone)

    def from_utc(zone, u):
        off = zones.offset_at_utc_native(zones.table(zone, y0 - 1, y1 + 1), u) if _is_dst_name(zone) else off_s(zone)
        return u + _dt.timedelta(seconds=off), off
    if p == "timestamp":
        u = _dt.datetime(1970, 1, 1) + _dt.timedelta(seconds=w["n"])
        wall, soff = None, None
    else:
        wall = _dt.datetime(w["Y"], w["m"], w["d"], w["H"], w["M"], w.get("S", 0))
        ok, u, soff = to_utc(A, wall)
        if not ok:
            return {"violates": False, "unrealizable": True, "detail": "witness is a gap/ambiguous local time"}
        if p == "relative":
            u -= _dt.timedelta(hours=w["k"])
            wall -= _dt.timedelta(hours=w["k"])
    if B is not None:
        exp, eoff = from_utc(B, u)
    elif p == "timestamp":
        exp, eoff = from_utc(A, u)
    else:
        exp, eoff = wall, soff
    got = res["date_obj"]
    if got is None:
        return {"violates": True, "detail": "%s -> None; expected %s" % (desc, exp)}
    bad = got.replace(tzinfo=None) != exp or (got.tzinfo is not None) != (a["aware"] is True)
    if not bad and a["aware"] is True and not (p == "relative" and B is None):
        bad = got.utcoffset() != _dt.timedelta(seconds=eoff)
    return {"violates": bad, "detail": "%s -> %r; expected wall clock %s (offset %+d s)" % (desc, got, exp, eoff)}


def native_check(spec):
    from symx import native
    a = spec["args"]
    if spec.get("dst"):
        return _native_dst(spec)
    res = native.call_api(spec["call"])
    desc = "parse(%r, formats=%r, settings=%r)" % (spec["call"]["string"], spec["call"].get("date_formats"), spec["call"]["settings"])
    if "exception" in res:
        return {"violates": True, "detail": "%s raised %s" % (desc, res["exception"])}
    A, B, aware, named = a["A"], a["B"], a["aware"], a.get("named")
    final = B if B is not None else (A if (named is None or A != "local") else None)
    if spec["task"].startswith("relative-named"):
        final = B if B is not None else named
    final_off = off_s(final) if final is not None else spec["src_off"]
    exp = _dt.datetime(*spec["wall"]) + _dt.timedelta(seconds=final_off - spec["src_off"])
    want_aware = aware is True or (aware is None and named is not None)
    got = res["date_obj"]
    if got is None:
        return {"violates": True, "detail": "%s -> None; expected %s" % (desc, exp)}
    bad = got.replace(tzinfo=None) != exp or (got.tzinfo is not None) != want_aware
    if not bad and want_aware:
        bad = got.utcoffset() != _dt.timedelta(seconds=final_off)
    return {"violates": bad, "detail": "%s -> %r; expected wall clock %s, %s" % (
        desc, got, exp, ("aware with offset %+d s" % final_off) if want_aware else "naive")}


def classify_known(spec, verdict, known):
    return None
