"""Independent oracle for tz-database zones with transitions: transition tables derived from the stdlib `zoneinfo`
(system tzdata — an implementation and a data copy independent of pytz, whose real code is what the checks execute
symbolically), and their z3 encodings over (ordinal, µs-of-day) pairs."""
import datetime as _dt

import z3

from symx import dates

_CACHE = {}
EPOCH = _dt.datetime(1970, 1, 1)


def table(name, y0, y1):
    """[(utc transition instant as naive datetime, offset seconds from then on)], first entry = window start"""
    key = (name, y0, y1)
    if key in _CACHE:
        return _CACHE[key]
    import zoneinfo
    z = zoneinfo.ZoneInfo(name)
    utc = _dt.timezone.utc

    def off(t):
        return int(t.replace(tzinfo=utc).astimezone(z).utcoffset().total_seconds())
    t = _dt.datetime(y0, 1, 1) - _dt.timedelta(days=2)
    end = _dt.datetime(y1, 12, 31, 23) + _dt.timedelta(days=2)
    out = [(t, off(t))]
    step = _dt.timedelta(hours=6)
    while t < end:
        n = t + step
        if off(n) != out[-1][1]:
            lo, hi = t, n
            while hi - lo > _dt.timedelta(seconds=1):
                mid = lo + (hi - lo) / 2
                mid = mid.replace(microsecond=0)
                if mid <= lo:
                    break
                if off(mid) == out[-1][1]:
                    lo = mid
                else:
                    hi = mid
            out.append((hi, off(hi)))
        t = n
    _CACHE[key] = out
    return out


def usable(name, y0, y1):
    """the zoneinfo-derived table (system tzdata) must agree with pytz's bundled data on every transition of the
    window; if the two data copies differ (different tzdata releases) the zone is not used as an oracle"""
    key = ("usable", name, y0, y1)
    if key in _CACHE:
        return _CACHE[key]
    ok = True
    try:
        import pytz
        tz = pytz.timezone(name)
        tab = table(name, y0, y1)
        ours = [(t, off) for t, off in tab[1:]]
        theirs = []
        tt = getattr(tz, "_utc_transition_times", [])
        ti = getattr(tz, "_transition_info", [])
        lo, hi = tab[0][0], _dt.datetime(y1, 12, 31, 23) + _dt.timedelta(days=2)
        prev = None
        for t, inf in zip(tt, ti):
            off = int(inf[0].total_seconds())
            if lo < t <= hi and off != prev:
                theirs.append((t, off))
            prev = off
        ok = ours == theirs
        if ok:
            # the offset in force at the start of the window must agree as well (pytz rounds historical sub-minute
            # offsets such as Monrovia's -0:44:30 to whole minutes; zoneinfo does not)
            import datetime as _d
            start = tab[0][0].replace(tzinfo=_d.timezone.utc).astimezone(tz)
            ok = int(start.utcoffset().total_seconds()) == tab[0][1]
    except Exception:
        ok = False
    _CACHE[key] = ok
    return ok


def _pair(t):
    return t.toordinal(), ((t.hour * 60 + t.minute) * 60 + t.second) * 1000000 + t.microsecond


def z_offset_at_utc(tab, o, r):
    """offset in seconds valid at the UTC instant (o, r)"""
    e = z3.IntVal(tab[0][1])
    for t, off in tab[1:]:
        to, tr = _pair(t)
        e = z3.If(dates.z_lex_le(z3.IntVal(to), z3.IntVal(tr), o, r), off, e)
    return e


def _shift(o, r, secs):
    """(o, r) + secs seconds, |secs| < 2 days (secs may be a z3 term)"""
    t = r + secs * 1000000
    c = z3.If(t < -dates.K_DAY, -2, z3.If(t < 0, -1, z3.If(t >= 2 * dates.K_DAY, 2, z3.If(t >= dates.K_DAY, 1, 0))))
    return o + c, t - c * dates.K_DAY


def z_local_to_utc(tab, o, r):
    """wall clock (o, r) in the zone -> (unambiguous_and_existing, utc_o, utc_r, offset_seconds)"""
    conds, outs = [], []
    for i, (t, off) in enumerate(tab):
        uo, ur = _shift(o, r, -off)
        to, tr = _pair(t)
        c = dates.z_lex_le(z3.IntVal(to), z3.IntVal(tr), uo, ur) if i else z3.BoolVal(True)
        if i + 1 < len(tab):
            no, nr = _pair(tab[i + 1][0])
            c = z3.And(c, dates.z_lex_lt(uo, ur, z3.IntVal(no), z3.IntVal(nr)))
        conds.append(c)
        outs.append((uo, ur, off))
    exactly_one = z3.PbEq([(c, 1) for c in conds], 1)
    uo, ur, uoff = outs[-1][0], outs[-1][1], z3.IntVal(outs[-1][2])
    for c, (a, b, off) in zip(reversed(conds[:-1]), reversed(outs[:-1])):
        uo, ur, uoff = z3.If(c, a, uo), z3.If(c, b, ur), z3.If(c, off, uoff)
    return exactly_one, uo, ur, uoff


def z_local_count(tab, o, r, k):
    """the wall clock (o, r) occurs exactly k times in the zone (0: inside a gap, 2: repeated)"""
    conds = []
    for i, (t, off) in enumerate(tab):
        uo, ur = _shift(o, r, -off)
        to, tr = _pair(t)
        c = dates.z_lex_le(z3.IntVal(to), z3.IntVal(tr), uo, ur) if i else z3.BoolVal(True)
        if i + 1 < len(tab):
            no, nr = _pair(tab[i + 1][0])
            c = z3.And(c, dates.z_lex_lt(uo, ur, z3.IntVal(no), z3.IntVal(nr)))
        conds.append(c)
    return z3.PbEq([(c, 1) for c in conds], k)


def local_to_utc_native(tab, w):
    """concrete twin of z_local_to_utc: (ok, utc datetime, offset)"""
    hits = []
    for i, (t, off) in enumerate(tab):
        u = w - _dt.timedelta(seconds=off)
        if (i == 0 or t <= u) and (i + 1 == len(tab) or u < tab[i + 1][0]):
            hits.append((u, off))
    if len(hits) != 1:
        return False, None, None
    return True, hits[0][0], hits[0][1]


def offset_at_utc_native(tab, u):
    off = tab[0][1]
    for t, o in tab[1:]:
        if t <= u:
            off = o
    return off
