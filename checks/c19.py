"""C19 — import survives a missing, empty or truncated on-disk timezone cache.

The real `_load_offsets` (dateparser/timezone_parser.py) is executed with `open` bound to an in-memory file whose
content is the shipped cache and whose LENGTH k is a z3 integer in [0, N] (plus a 'missing' bit).  The real C
`pickle.load` reads through the proxy; every read forks on whether it lies before the cut, at it, or across it, so
the cut points fall into classes decided by the solver; each class is one path ending in the obligation below."""
import io
import os
import pickle
import sys
import time

import z3

from symx import core, runner
from symx.core import SInt, PathOutcome, branch, assume, mkbool

ID = "C19"
ENCODED = ["dateparser.timezone_parser._load_offsets", "dateparser.timezone_parser.build_tz_offsets",
           "pickle.load (real C unpickler, reading through the symbolic-length file proxy)"]
ASSUMPTIONS = [
    "bounded claim: the cache file is a PREFIX of the shipped cache of any length k in [0, N] (every interruption point "
    "of its single write), or missing; content corrupted other than by truncation is outside (bytes are not symbolic)",
    "file model: open(..., 'rb') -> proxy with read(n)/readline() only (no peek/readinto, so the C unpickler uses read); "
    "a read that crosses the cut returns the available prefix; all cut points strictly inside one read request are "
    "represented by the first of them (the unpickler only distinguishes 'short'); both ends of every class are "
    "replayed on a real truncated file in a package copy",
    "open(..., 'wb') -> in-memory file; the bytes written are inspected after the call and fed to a second load",
    "BUILD_TZ_CACHE unset (current_hash None) and set (hash of the table) are both visited",
    "besides the shipped cache, 7 other contents (well-formed pickles of the wrong shape, non-pickle bytes) are cut at "
    "a symbolic length as well; the module's `os` is a facade that answers access()/replace() for the cache path from "
    "the modelled file state",
]


class SymFile:
    def __init__(self, data, k, log):
        self.data, self.k, self.pos, self.log = data, k, 0, log

    def __enter__(self):
        return self

    def __exit__(self, *a):
        return False

    def _avail(self, n):
        end = min(self.pos + n, len(self.data))
        if isinstance(self.k, int):
            stop = min(end, self.k)
            r = self.data[self.pos:max(self.pos, stop)]
            self.pos += len(r)
            return r
        if branch(self.k.z >= end):
            r = self.data[self.pos:end]
            self.pos = end
            self.log.append(("full", self.pos))
            return r
        if branch(self.k.z <= self.pos):
            self.log.append(("eof", self.pos))
            return b""
        # cut strictly inside this request: represented by its first point (see ASSUMPTIONS)
        assume(mkbool(self.k.z == self.pos + 1))
        r = self.data[self.pos:self.pos + 1]
        self.log.append(("short", self.pos, end))
        self.pos += 1
        return r

    def read(self, n=-1):
        if n is None or n < 0:
            n = len(self.data)
        return self._avail(n)

    def readline(self):
        i = self.data.find(b"\n", self.pos)
        n = (i + 1 if i >= 0 else len(self.data)) - self.pos
        return self._avail(n)


class OutFile(io.BytesIO):
    def __init__(self, sink, path="written"):
        super().__init__()
        self.sink, self.path = sink, path

    def __enter__(self):
        return self

    def __exit__(self, *a):
        self.sink[self.path] = self.getvalue()
        return False

    def close(self):
        if not self.closed:
            self.sink[self.path] = self.getvalue()
        super().close()


def _table_sig(TZ):
    return ([(n, i["regex"].pattern, int(i["regex"].flags), i["offset"]) for n, i in TZ._tz_offsets],
            TZ._search_regex.pattern, int(TZ._search_regex.flags), TZ._search_regex_ignorecase.pattern,
            int(TZ._search_regex_ignorecase.flags))


_STATE = {}


def _setup():
    if _STATE:
        return _STATE
    sys.path.insert(0, runner.REPO)
    sys.dont_write_bytecode = True
    import dateparser.timezone_parser as TZ
    assert os.path.realpath(TZ.__file__).startswith(os.path.realpath(runner.REPO) + os.sep), TZ.__file__
    import regex
    parts = []
    ref_offsets = list(TZ.build_tz_offsets(parts))
    ref = ([(n, i["regex"].pattern, int(i["regex"].flags), i["offset"]) for n, i in ref_offsets],
           "|".join(parts), int(regex.compile("|".join(parts)).flags), "|".join(parts),
           int(regex.compile("|".join(parts), regex.IGNORECASE).flags))
    data = open(TZ.CACHE_PATH, "rb").read()
    import zlib
    from dateparser.timezones import timezone_info_list
    _STATE.update(TZ=TZ, ref=ref, data=data, hash=zlib.crc32(str(timezone_info_list).encode("utf-8")))
    return _STATE


def variants():
    """file contents other than the shipped cache: well-formed pickles of the wrong shape and non-pickle bytes
    (each again cut at a symbolic length)"""
    return {
        "shipped": None,
        "pickle-3-tuple": pickle.dumps((None, [], None), protocol=5),
        "pickle-5-tuple": pickle.dumps((None, [], None, None, 0), protocol=5),
        "pickle-int": pickle.dumps(7, protocol=5),
        "pickle-none": pickle.dumps(None, protocol=5),
        "pickle-empty-list": pickle.dumps([], protocol=5),
        "not-a-pickle": bytes(range(256)) * 2,
        "text": b"dateparser timezone cache\n" * 4,
    }


class _OsFacade:
    """the module's `os`, with the cache file's existence/writability taken from the modelled file state"""

    def __init__(self, real, cache_path, missing, sink):
        self._real, self._cache, self._missing, self._sink = real, str(cache_path), missing, sink

    def access(self, path, mode):
        if str(path) == self._cache:
            return (not self._missing) or str(path) in self._sink
        return self._real.access(path, mode)

    def replace(self, src, dst):
        self._sink[str(dst)] = self._sink.pop(str(src))

    rename = replace

    def remove(self, path):
        self._sink.pop(str(path), None)

    unlink = remove

    def __getattr__(self, name):
        return getattr(self._real, name)


def harness(use_hash, missing, variant="shipped"):
    def fn():
        S = _setup()
        TZ = S["TZ"]
        data = variants()[variant] or S["data"]
        N = len(data)
        sink, log = {}, []
        if missing:
            k = None
        else:
            kz = z3.Int("k")
            core.add(kz >= 0, kz <= N)
            core.register_input("k", kz, 0, N)
            k = SInt(kz)

        def fake_open(path, mode="r", *a, **kw):
            if "w" in mode or "a" in mode or "+" in mode:
                return OutFile(sink, str(path))
            if str(path) in sink:
                return SymFile(sink[str(path)], len(sink[str(path)]), [])
            if missing:
                raise FileNotFoundError(2, "No such file or directory", str(path))
            return SymFile(data, k, log)
        TZ.open = fake_open
        real_os = TZ.os
        TZ.os = _OsFacade(real_os, TZ.CACHE_PATH, missing, sink)
        cur_hash = S["hash"] if use_hash else None
        wit = {} if missing else {"k": k}
        label = "missing" if missing else None
        try:
            TZ._load_offsets(TZ.CACHE_PATH, cur_hash)
        except Exception as e:  # noqa: any escaping exception breaks the property
            return PathOutcome(False, wit, "raised:%s" % type(e).__name__,
                               {"exception": "%s: %s" % (type(e).__name__, str(e)[:120]), "reads": log[-2:]})
        finally:
            TZ.os = real_os
            try:
                del TZ.open
            except AttributeError:
                pass
        same = _table_sig(TZ) == S["ref"]
        complete = variant == "shipped" and (
            not log or log[-1][0] == "full" and log[-1][1] == N and not any(x[0] != "full" for x in log))
        ok = same
        detail = {"same_table": same}
        if missing or not complete:
            # the damage must not persist: a complete cache is written back and a second load accepts it
            w = sink.get(str(TZ.CACHE_PATH))
            ok2 = False
            if w is not None:
                try:
                    obj = pickle.loads(w)
                    sink2, log2 = {}, []

                    def open2(path, mode="r", *a, **kw):
                        if "w" in mode:
                            return OutFile(sink2)
                        return SymFile(w, len(w), log2)
                    TZ.open = open2
                    try:
                        TZ._load_offsets(TZ.CACHE_PATH, cur_hash)
                    finally:
                        del TZ.open
                    ok2 = (_table_sig(TZ) == S["ref"]) and not sink2 and len(obj) == 4
                except Exception as e:  # noqa
                    detail["second_load"] = "%s: %s" % (type(e).__name__, e)
            detail["rewritten_and_reloadable"] = ok2
            ok = ok and ok2
        lab = label or ("complete" if complete else "damaged:%s" % (log[-1][0] if log else "?"))
        return PathOutcome(bool(ok), wit, lab, detail)
    return fn


def main(tier, seed, args):
    t0 = time.time()
    V = runner.Verdicts(ID)
    results = []
    S = _setup()
    N = len(S["data"])
    for use_hash in (False, True):
        for missing in (False, True):
            for variant in (["shipped"] if missing else list(variants())):
                res = core.explore(harness(use_hash, missing, variant), max_paths=500, warmup=False, want_samples=200)
                res.variant = variant
                results.append((use_hash, missing, res))
    known = [k for k in runner.load_known() if k.get("property") == ID and k.get("status", "open") == "open"]
    nrep = 0
    classes = []
    replayed = reproduced = 0
    for use_hash, missing, res in results:
        for i in res.inconclusive:
            V.harness.append("inconclusive path: %s" % i["why"][:200])
        for viol in res.violations:
            k = viol["witness"].get("k")
            spec = {"k": k, "missing": missing, "use_hash": use_hash, "label": viol["label"], "info": viol["info"],
                    "variant": res.variant}
            # replay both ends of the class when the solver gives them: k itself and (for short reads) end-1
            ks = [k]
            reads = viol["info"].get("reads") or []
            if reads and reads[-1][0] == "short":
                ks.append(reads[-1][2] - 1)
            for kk in ks:
                nrep += 1
                sp = dict(spec, k=kk)
                ok, verdict, path = runner.replay_native(ID, sp, "%s_%d" % (tier, nrep))
                replayed += 1
                if ok is True:
                    reproduced += 1
                    V.violations.append((path, verdict.get("detail", "")))
                elif ok is False:
                    V.harness.append("counterexample k=%r did not reproduce natively: %s" % (kk, verdict.get("detail")))
                else:
                    V.harness.append("replay failed: %s" % str(verdict)[:200])
                if len(V.violations) >= 6:
                    break
            if len(V.violations) >= 6:
                break
        classes.append({"BUILD_TZ_CACHE": use_hash, "missing_file": missing, "content": res.variant, "paths": res.paths, "completed": res.completed,
                        "labels": res.labels, "violations": len(res.violations), "solver_calls": res.checks,
                        "samples": res.samples[:4]})
    # validation of the file model: one witness per path class is replayed as a real truncated file (thorough: all)
    validated = 0
    jobs = []
    for use_hash, missing, res in results:
        if res.violations:
            continue
        smps = res.samples
        if tier == "quick" and res.variant != "shipped":
            smps = smps[:1]
        for smp in smps:
            nrep += 1
            jobs.append(({"k": smp["witness"].get("k"), "missing": missing, "use_hash": use_hash, "variant": res.variant,
                          "label": "model-validation"}, "%s_val%d" % (tier, nrep)))
    from concurrent.futures import ThreadPoolExecutor
    with ThreadPoolExecutor(12) as ex:
        outs = list(ex.map(lambda j: runner.replay_native(ID, j[0], j[1]), jobs))
    for ok, verdict, path in outs:
        validated += 1
        if ok is True:
            V.violations.append((path, verdict.get("detail", "")))
        elif ok is None:
            V.harness.append("model-validation replay failed: %s" % str(verdict)[:200])
        else:
            os.remove(path)
    completed = sum(r.completed for _, _, r in results)
    if completed == 0:
        V.harness.append("no path completed")
    cov = {
        "explanation": "Symbolic cut point: the real _load_offsets + real C pickle.load run over a file proxy whose length k "
                       "is a z3 integer in [0, %d]; each read forks on k, the solver partitions [0, N] into classes "
                       "(one path each) and the obligation 'no exception, same table, complete cache written back and "
                       "accepted by a second load' is decided per class; counterexamples and class witnesses are replayed "
                       "on a real truncated file in a scratch package copy." % N,
        "evaluations": completed, "distinct_nontrivial": completed,
        "rule": "one evaluation = one class of cut points (path) x BUILD_TZ_CACHE setting, plus the missing-file case",
        "samples": [c for c in classes],
        "cache_bytes": N, "functions_encoded": ENCODED, "counterexamples_replayed": replayed,
        "counterexamples_reproduced": reproduced, "class_witnesses_validated_on_real_files": validated,
        "solver_queries": sum(r.checks for _, _, r in results),
        "solver_time_s": round(sum(r.solver_s for _, _, r in results), 2), "exhaustive": False,
    }
    runner.write_evidence(ID, tier, seed, cov, ASSUMPTIONS, time.time() - t0, len(V.violations))
    print("%s %s: classes=%d solver_calls=%d wall=%.0fs" % (ID, tier, completed, cov["solver_queries"], time.time() - t0))
    return V.exit_code()


# ------------------------------------------------------------------------------------------------ replay side
def native_check(spec):
    """real truncated file in a scratch copy of the package; `python -c 'import dateparser'` twice"""
    import shutil
    import subprocess
    import tempfile
    tmp = tempfile.mkdtemp(prefix="c19_", dir="/tmp")
    try:
        shutil.copytree(os.path.join(runner.REPO, "dateparser"), os.path.join(tmp, "dateparser"),
                        ignore=shutil.ignore_patterns("__pycache__"))
        if os.path.isdir(os.path.join(runner.REPO, "dateparser_data")):
            shutil.copytree(os.path.join(runner.REPO, "dateparser_data"), os.path.join(tmp, "dateparser_data"),
                            ignore=shutil.ignore_patterns("__pycache__", "cldr_language_data", "supplementary_language_data"))
        cache = os.path.join(tmp, "dateparser", "data", "dateparser_tz_cache.pkl")
        data = variants()[spec.get("variant", "shipped")] or open(cache, "rb").read()
        if spec.get("missing"):
            os.remove(cache)
            what = "missing cache"
        else:
            with open(cache, "wb") as f:
                f.write(data[:spec["k"]])
            what = "cache content %r truncated to %d of %d bytes" % (spec.get("variant", "shipped"), spec["k"], len(data))
        env = dict(os.environ, PYTHONDONTWRITEBYTECODE="1")
        env.pop("BUILD_TZ_CACHE", None)
        if spec.get("use_hash"):
            env["BUILD_TZ_CACHE"] = "1"
        code = ("import sys; sys.path.insert(0, %r); import dateparser, dateparser.timezone_parser as T; "
                "assert T.__file__.startswith(%r), T.__file__; import regex; parts=[]; "
                "ref=list(T.build_tz_offsets(parts)); "
                "sig=lambda L:[(n,i['regex'].pattern,int(i['regex'].flags),i['offset']) for n,i in L]; "
                "assert sig(T._tz_offsets)==sig(ref), 'table differs'; "
                "assert T._search_regex.pattern=='|'.join(parts) and T._search_regex_ignorecase.pattern=='|'.join(parts); "
                "print('OK', dateparser.parse('2014-01-05 10:20 EST'))" % (tmp, tmp))
        p1 = subprocess.run([runner.PY, "-c", code], capture_output=True, text=True, env=env, timeout=120)
        if p1.returncode != 0:
            return {"violates": True, "detail": "import with %s failed: %s" % (what, (p1.stderr.strip().splitlines() or ["?"])[-1][:200])}
        after = open(cache, "rb").read() if os.path.exists(cache) else None
        complete = False
        if after is not None:
            try:
                complete = len(pickle.loads(after)) == 4
            except Exception:
                complete = False
        if not complete:
            return {"violates": True, "detail": "after import with %s the cache on disk is still not a complete table" % what}
        m1 = os.stat(cache).st_mtime_ns
        p2 = subprocess.run([runner.PY, "-c", code], capture_output=True, text=True, env=env, timeout=120)
        if p2.returncode != 0:
            return {"violates": True, "detail": "second import failed: %s" % (p2.stderr.strip().splitlines() or ["?"])[-1][:200]}
        return {"violates": False, "detail": "import with %s ok; cache rewritten (%d bytes); second import ok" % (what, len(after))}
    finally:
        shutil.rmtree(tmp, ignore_errors=True)
