"""C19 — import survives a missing, empty or truncated on-disk timezone cache.

The real `_load_offsets` (dateparser/timezone_parser.py) is executed with `open` bound to an in-memory file whose
content is the shipped cache and whose LENGTH k is a z3 integer in [0, N] (plus a 'missing' bit).  The real C
`pickle.load` reads through the proxy; every read forks on whether it lies before the cut, at it, or across it, so
the cut points fall into classes decided by the solver; each class is one path ending in the obligation below."""
import io
import os
import pickle
import sys
import time

import z3

from symx import core, runner
from symx.core import SInt, PathOutcome, branch, assume, mkbool

ID = "C19"
ENCODED = ["dateparser.timezone_parser._load_offsets", "dateparser.timezone_parser.build_tz_offsets",
           "pickle.load (real C unpickler, reading through the symbolic-length file proxy)"]
ASSUMPTIONS = [
    "bounded claim: the cache file is a PREFIX of the shipped cache of any length k in [0, N] (every interruption point "
    "of its single write), or missing; content corrupted other than by truncation is outside (bytes are not symbolic)",
    "file model: open(..., 'rb') -> proxy with read(n)/readline() only (no peek/readinto, so the C unpickler uses read); "
    "a read that crosses the cut returns the available prefix; all cut points strictly inside one read request are "
    "represented by the first of them (the unpickler only distinguishes 'short'); both ends of every class are "
    "replayed on a real truncated file in a package copy",
    "open(..., 'wb') -> in-memory file; the bytes written are inspected after the call and fed to a second load",
    "BUILD_TZ_CACHE unset (current_hash None) and set (hash of the table) are both visited",
    "besides the shipped cache, 7 other contents (well-formed pickles of the wrong shape, non-pickle bytes) are cut at "
    "a symbolic length as well; the module's `os` is a facade that answers access()/replace() for the cache path from "
    "the modelled file state",
    "crash DURING the rewrite: import #1 (from a missing / empty / half / one-byte-short cache) dies at each file-system "
    "event of the rebuild - inside a write after a symbolic number j of the bytes it was going to write, or just before an "
    "os.replace/rename/remove call; modelled file system = files of the data directory as (bytes, length term), open() in "
    "modes r/w/x, os.access/replace/rename/remove/unlink, os.path.exists/isfile; other ways of touching files (pathlib "
    "methods, os.stat) are not modelled; import #2 must succeed with the right table and leave a complete cache which "
    "import #3 reads without rebuilding; witnesses are replayed with a real os._exit inside the write",
]


class SymFile:
    def __init__(self, data, k, log):
        self.data, self.k, self.pos, self.log = data, k, 0, log

    def __enter__(self):
        return self

    def __exit__(self, *a):
        return False

    def _avail(self, n):
        end = min(self.pos + n, len(self.data))
        if isinstance(self.k, int):
            stop = min(end, self.k)
            r = self.data[self.pos:max(self.pos, stop)]
            self.pos += len(r)
            return r
        if branch(self.k.z >= end):
            r = self.data[self.pos:end]
            self.pos = end
            self.log.append(("full", self.pos))
            return r
        if branch(self.k.z <= self.pos):
            self.log.append(("eof", self.pos))
            return b""
        # cut strictly inside this request: represented by its first point (see ASSUMPTIONS)
        assume(mkbool(self.k.z == self.pos + 1))
        r = self.data[self.pos:self.pos + 1]
        self.log.append(("short", self.pos, end))
        self.pos += 1
        return r

    def read(self, n=-1):
        if n is None or n < 0:
            n = len(self.data)
        return self._avail(n)

    def readline(self):
        i = self.data.find(b"\n", self.pos)
        n = (i + 1 if i >= 0 else len(self.data)) - self.pos
        return self._avail(n)


class OutFile(io.BytesIO):
    def __init__(self, sink, path="written"):
        super().__init__()
        self.sink, self.path = sink, path

    def __enter__(self):
        return self

    def __exit__(self, *a):
        self.sink[self.path] = self.getvalue()
        return False

    def close(self):
        if not self.closed:
            self.sink[self.path] = self.getvalue()
        super().close()


class _Crash(BaseException):
    """the process dies here (kill, power loss, full disk): nothing after this point of the import is executed"""


class ModelFS:
    """files of the package's data directory as (bytes, length) with the length possibly a z3 term; `open` in modes r/w/x
    and the `os` calls the loader may use on them.  In crash mode the process dies at the e-th file-system event: inside a
    write (a prefix of symbolic length of what was going to be written stays on disk) or just before an os call."""

    def __init__(self, files, crash_at=None, plan=None):
        self.files = dict(files)          # path -> (data, k)
        self.crash_at, self.plan = crash_at, plan or []
        self.events = []                  # recorded in the dry run: ("write", path, payload) / ("op", name, args)
        self.log = []
        self.dead = False                 # after the crash nothing the dying process still "does" reaches the disk

    def _event(self):
        return len(self.events)

    def open(self, path, mode="r", *a, **kw):
        path = str(path)
        if self.dead:
            raise _Crash()
        if "x" in mode and path in self.files:
            raise FileExistsError(17, "File exists", path)
        if "w" in mode or "x" in mode or "a" in mode or "+" in mode:
            idx = self._event()
            self.events.append(["write", path, None])
            self.files[path] = (b"", 0)          # created / truncated by open()
            return _CrashFile(self, path, idx)
        if path not in self.files:
            raise FileNotFoundError(2, "No such file or directory", path)
        data, k = self.files[path]
        return SymFile(data, k, self.log)

    def _op(self, name, *args):
        if self.dead:
            raise _Crash()                # (exception handlers and finally blocks do not run in a killed process)
        idx = self._event()
        self.events.append(["op", name, [str(x) for x in args]])
        if self.crash_at == idx:
            self.dead = True
            raise _Crash()


class _CrashFile(io.BytesIO):
    def __init__(self, fs, path, idx):
        super().__init__()
        self.fs, self.path, self.idx = fs, path, idx

    def write(self, b):
        if self.fs.crash_at == self.idx:
            payload = self.fs.plan[self.idx][2]
            jz = z3.Int("j")
            core.add(jz >= 0, jz <= len(payload))
            core.register_input("j", jz, 0, len(payload))
            self.fs.files[self.path] = (payload, SInt(jz))
            self.fs.dead = True
            raise _Crash()
        return super().write(b)

    def __enter__(self):
        return self

    def __exit__(self, *a):
        self.close()
        return False

    def close(self):
        if not self.closed and not self.fs.dead:
            v = self.getvalue()
            self.fs.files[self.path] = (v, len(v))
            self.fs.events[self.idx][2] = v
        super().close()


class _OsModel:
    """the module's `os` over a ModelFS (paths the model does not know go to the real os)"""

    def __init__(self, real, fs, root):
        self._real, self._fs, self._root = real, fs, str(root)
        self.path = _OsPathModel(real.path, fs, self._root)

    def _mine(self, p):
        return str(p).startswith(self._root)

    def access(self, path, mode):
        return str(path) in self._fs.files if self._mine(path) else self._real.access(path, mode)

    def replace(self, src, dst):
        self._fs._op("replace", src, dst)
        if str(src) not in self._fs.files:
            raise FileNotFoundError(2, "No such file or directory", str(src))
        self._fs.files[str(dst)] = self._fs.files.pop(str(src))

    rename = replace

    def remove(self, path):
        self._fs._op("remove", path)
        if str(path) not in self._fs.files:
            raise FileNotFoundError(2, "No such file or directory", str(path))
        del self._fs.files[str(path)]

    unlink = remove

    def __getattr__(self, name):
        return getattr(self._real, name)


class _OsPathModel:
    def __init__(self, real, fs, root):
        self._real, self._fs, self._root = real, fs, root

    def exists(self, p):
        return str(p) in self._fs.files if str(p).startswith(self._root) else self._real.exists(p)

    isfile = exists

    def __getattr__(self, name):
        return getattr(self._real, name)


def _table_sig(TZ):
    return ([(n, i["regex"].pattern, int(i["regex"].flags), i["offset"]) for n, i in TZ._tz_offsets],
            TZ._search_regex.pattern, int(TZ._search_regex.flags), TZ._search_regex_ignorecase.pattern,
            int(TZ._search_regex_ignorecase.flags))


_STATE = {}


def _setup():
    if _STATE:
        return _STATE
    sys.path.insert(0, runner.REPO)
    sys.dont_write_bytecode = True
    import dateparser.timezone_parser as TZ
    assert os.path.realpath(TZ.__file__).startswith(os.path.realpath(runner.REPO) + os.sep), TZ.__file__
    import regex
    parts = []
    ref_offsets = list(TZ.build_tz_offsets(parts))
    ref = ([(n, i["regex"].pattern, int(i["regex"].flags), i["offset"]) for n, i in ref_offsets],
           "|".join(parts), int(regex.compile("|".join(parts)).flags), "|".join(parts),
           int(regex.compile("|".join(parts), regex.IGNORECASE).flags))
    data = open(TZ.CACHE_PATH, "rb").read()
    import zlib
    from dateparser.timezones import timezone_info_list
    _STATE.update(TZ=TZ, ref=ref, data=data, hash=zlib.crc32(str(timezone_info_list).encode("utf-8")))
    return _STATE


def variants():
    """file contents other than the shipped cache: well-formed pickles of the wrong shape and non-pickle bytes
    (each again cut at a symbolic length)"""
    return {
        "shipped": None,
        "pickle-3-tuple": pickle.dumps((None, [], None), protocol=5),
        "pickle-5-tuple": pickle.dumps((None, [], None, None, 0), protocol=5),
        "pickle-int": pickle.dumps(7, protocol=5),
        "pickle-none": pickle.dumps(None, protocol=5),
        "pickle-empty-list": pickle.dumps([], protocol=5),
        "not-a-pickle": bytes(range(256)) * 2,
        "text": b"dateparser timezone cache\n" * 4,
    }


class _OsFacade:
    """the module's `os`, with the cache file's existence/writability taken from the modelled file state"""

    def __init__(self, real, cache_path, missing, sink):
        self._real, self._cache, self._missing, self._sink = real, str(cache_path), missing, sink

    def access(self, path, mode):
        if str(path) == self._cache:
            return (not self._missing) or str(path) in self._sink
        return self._real.access(path, mode)

    def replace(self, src, dst):
        self._sink[str(dst)] = self._sink.pop(str(src))

    rename = replace

    def remove(self, path):
        self._sink.pop(str(path), None)

    unlink = remove

    def __getattr__(self, name):
        return getattr(self._real, name)


def harness(use_hash, missing, variant="shipped"):
    def fn():
        S = _setup()
        TZ = S["TZ"]
        data = variants()[variant] or S["data"]
        N = len(data)
        sink, log = {}, []
        if missing:
            k = None
        else:
            kz = z3.Int("k")
            core.add(kz >= 0, kz <= N)
            core.register_input("k", kz, 0, N)
            k = SInt(kz)

        cache = str(TZ.CACHE_PATH)
        fs = ModelFS({} if missing else {cache: (data, k)})
        fs.log = log
        cur_hash = S["hash"] if use_hash else None
        wit = {} if missing else {"k": k}
        label = "missing" if missing else None
        try:
            _run_load(TZ, fs, cur_hash)
        except Exception as e:  # noqa: any escaping exception breaks the property
            return PathOutcome(False, wit, "raised:%s" % type(e).__name__,
                               {"exception": "%s: %s" % (type(e).__name__, str(e)[:120]), "reads": log[-2:]})
        sink = {p_: d_ for p_, (d_, k_) in fs.files.items() if fs.events and isinstance(k_, int) and k_ == len(d_)}
        same = _table_sig(TZ) == S["ref"]
        complete = variant == "shipped" and (
            not log or log[-1][0] == "full" and log[-1][1] == N and not any(x[0] != "full" for x in log))
        ok = same
        detail = {"same_table": same}
        if missing or not complete:
            # the damage must not persist: a complete cache is written back and a second load accepts it
            w = sink.get(str(TZ.CACHE_PATH))
            ok2 = False
            if w is not None:
                try:
                    obj = pickle.loads(w)
                    fs2 = ModelFS(fs.files)
                    _run_load(TZ, fs2, cur_hash)
                    ok2 = (_table_sig(TZ) == S["ref"]) and not fs2.events and len(obj) == 4
                except Exception as e:  # noqa
                    detail["second_load"] = "%s: %s" % (type(e).__name__, e)
            detail["rewritten_and_reloadable"] = ok2
            ok = ok and ok2
        lab = label or ("complete" if complete else "damaged:%s" % (log[-1][0] if log else "?"))
        return PathOutcome(bool(ok), wit, lab, detail)
    return fn


INITIAL = {"missing": None, "empty": 0, "half": -2, "one-short": -1}


def _run_load(TZ, fs, cur_hash):
    real_os = TZ.os
    TZ.open = fs.open
    TZ.os = _OsModel(real_os, fs, os.path.dirname(str(TZ.CACHE_PATH)))
    try:
        TZ._load_offsets(TZ.CACHE_PATH, cur_hash)
    finally:
        TZ.os = real_os
        try:
            del TZ.open
        except AttributeError:
            pass


def _initial_files(S, init):
    cache = str(S["TZ"].CACHE_PATH)
    k = INITIAL[init]
    if k is None:
        return {}
    N = len(S["data"])
    return {cache: (S["data"], {0: 0, -2: N // 2, -1: N - 1}[k])}


def dry_events(use_hash, init):
    """the file-system events of an import that starts from `init` and is NOT interrupted"""
    S = _setup()
    fs = ModelFS(_initial_files(S, init))
    _run_load(S["TZ"], fs, S["hash"] if use_hash else None)
    return fs.events


def harness_crash(use_hash, init, e, plan):
    """import #1 starts from `init` and the process dies at file-system event e (inside a write: after a symbolic number
    j of the bytes it was going to write); import #2 must succeed with the right table; after it the cache must be
    complete: import #3 reads it without rebuilding."""
    def fn():
        S = _setup()
        TZ = S["TZ"]
        cur_hash = S["hash"] if use_hash else None
        cache = str(TZ.CACHE_PATH)
        fs = ModelFS(_initial_files(S, init), crash_at=e, plan=plan)
        try:
            _run_load(TZ, fs, cur_hash)
            raise core.Abort()            # the event was not reached on this run
        except _Crash:
            pass
        except Exception:  # noqa: the uninterrupted part is the subject of the other harness
            raise core.Abort()
        wit = {}
        j = fs.files.get(plan[e][1], (None, None))[1] if plan[e][0] == "write" else None
        if isinstance(j, SInt):
            wit["j"] = j
        left = sorted(os.path.basename(p) for p in fs.files)
        fs2 = ModelFS(fs.files)
        try:
            _run_load(TZ, fs2, cur_hash)
        except Exception as ex:  # noqa
            return PathOutcome(False, wit, "import2-raised:%s" % type(ex).__name__,
                               {"exception": "%s: %s" % (type(ex).__name__, str(ex)[:120]), "files_left_by_crash": left})
        same = _table_sig(TZ) == S["ref"]
        data3 = fs2.files.get(cache)
        complete = False
        if data3 is not None and (data3[1] == len(data3[0]) if isinstance(data3[1], int)
                                  else branch(data3[1].z == len(data3[0]))):
            fs3 = ModelFS(fs2.files)
            try:
                _run_load(TZ, fs3, cur_hash)
                complete = not fs3.events and _table_sig(TZ) == S["ref"]
            except Exception:  # noqa
                complete = False
        return PathOutcome(bool(same and complete), wit, "crash@%d:%s" % (e, plan[e][0]),
                           {"same_table": same, "cache_complete_after_import2": complete, "files_left_by_crash": left,
                            "files_after_import2": sorted(os.path.basename(p) for p in fs2.files)})
    return fn


def main(tier, seed, args):
    t0 = time.time()
    V = runner.Verdicts(ID)
    results = []
    S = _setup()
    N = len(S["data"])
    for use_hash in (False, True):
        for missing in (False, True):
            for variant in (["shipped"] if missing else list(variants())):
                res = core.explore(harness(use_hash, missing, variant), max_paths=500, warmup=False, want_samples=200)
                res.variant = variant
                results.append((use_hash, missing, res))
    crash_results = []
    for use_hash in (False, True):
        for init in (["missing", "half"] if tier == "quick" else list(INITIAL)):
            try:
                plan = dry_events(use_hash, init)
            except Exception as e:  # noqa
                V.harness.append("dry run from %s failed: %s: %s" % (init, type(e).__name__, e))
                continue
            for e in range(len(plan)):
                res = core.explore(harness_crash(use_hash, init, e, plan), max_paths=500, warmup=False, want_samples=50)
                crash_results.append((use_hash, init, e, plan[e][0], os.path.basename(plan[e][1]) if plan[e][0] == "write" else plan[e][1], res))
    known = [k for k in runner.load_known() if k.get("property") == ID and k.get("status", "open") == "open"]
    nrep = 0
    classes = []
    replayed = reproduced = 0
    crash_classes = []
    for use_hash, init, e, kind, what, res in crash_results:
        for i in res.inconclusive:
            V.harness.append("inconclusive path (crash scenario): %s" % i["why"][:200])
        for viol in res.violations[:3]:
            nrep += 1
            spec = {"crash": True, "use_hash": use_hash, "init": init, "event": e, "event_kind": kind,
                    "j": viol["witness"].get("j"), "label": viol["label"], "info": viol["info"]}
            ok, verdict, path = runner.replay_native(ID, spec, "%s_%d" % (tier, nrep))
            replayed += 1
            if ok is True:
                reproduced += 1
                V.violations.append((path, verdict.get("detail", "")))
            elif ok is False:
                V.harness.append("crash counterexample did not reproduce natively: %s" % verdict.get("detail"))
            else:
                V.harness.append("replay failed: %s" % str(verdict)[:200])
        crash_classes.append({"BUILD_TZ_CACHE": use_hash, "initial_state": init, "event": e, "event_kind": kind, "what": what,
                              "paths": res.paths, "completed": res.completed, "labels": res.labels,
                              "violations": len(res.violations), "solver_calls": res.checks})
    for use_hash, missing, res in results:
        for i in res.inconclusive:
            V.harness.append("inconclusive path: %s" % i["why"][:200])
        for viol in res.violations:
            k = viol["witness"].get("k")
            spec = {"k": k, "missing": missing, "use_hash": use_hash, "label": viol["label"], "info": viol["info"],
                    "variant": res.variant}
            # replay both ends of the class when the solver gives them: k itself and (for short reads) end-1
            ks = [k]
            reads = viol["info"].get("reads") or []
            if reads and reads[-1][0] == "short":
                ks.append(reads[-1][2] - 1)
            for kk in ks:
                nrep += 1
                sp = dict(spec, k=kk)
                ok, verdict, path = runner.replay_native(ID, sp, "%s_%d" % (tier, nrep))
                replayed += 1
                if ok is True:
                    reproduced += 1
                    V.violations.append((path, verdict.get("detail", "")))
                elif ok is False:
                    V.harness.append("counterexample k=%r did not reproduce natively: %s" % (kk, verdict.get("detail")))
                else:
                    V.harness.append("replay failed: %s" % str(verdict)[:200])
                if len(V.violations) >= 6:
                    break
            if len(V.violations) >= 6:
                break
        classes.append({"BUILD_TZ_CACHE": use_hash, "missing_file": missing, "content": res.variant, "paths": res.paths, "completed": res.completed,
                        "labels": res.labels, "violations": len(res.violations), "solver_calls": res.checks,
                        "samples": res.samples[:4]})
    # validation of the file model: one witness per path class is replayed as a real truncated file (thorough: all)
    validated = 0
    jobs = []
    for use_hash, missing, res in results:
        if res.violations:
            continue
        smps = res.samples
        if tier == "quick" and res.variant != "shipped":
            smps = smps[:1]
        for smp in smps:
            nrep += 1
            jobs.append(({"k": smp["witness"].get("k"), "missing": missing, "use_hash": use_hash, "variant": res.variant,
                          "label": "model-validation"}, "%s_val%d" % (tier, nrep)))
    from concurrent.futures import ThreadPoolExecutor
    with ThreadPoolExecutor(12) as ex:
        outs = list(ex.map(lambda j: runner.replay_native(ID, j[0], j[1]), jobs))
    for ok, verdict, path in outs:
        validated += 1
        if ok is True:
            V.violations.append((path, verdict.get("detail", "")))
        elif ok is None:
            V.harness.append("model-validation replay failed: %s" % str(verdict)[:200])
        else:
            os.remove(path)
    # one class witness per crash scenario is replayed with a real kill (thorough: up to 4)
    cjobs = []
    for use_hash, init, e, kind, what, res in crash_results:
        if res.violations:
            continue
        for smp in res.samples[:(1 if tier == "quick" else 4)]:
            nrep += 1
            cjobs.append(({"crash": True, "use_hash": use_hash, "init": init, "event": e, "event_kind": kind,
                           "j": smp["witness"].get("j"), "label": "model-validation"}, "%s_cval%d" % (tier, nrep)))
    with ThreadPoolExecutor(12) as ex:
        outs = list(ex.map(lambda j: runner.replay_native(ID, j[0], j[1]), cjobs))
    for ok, verdict, path in outs:
        validated += 1
        if ok is True:
            V.violations.append((path, verdict.get("detail", "")))
        elif ok is None:
            V.harness.append("crash model-validation replay failed: %s" % str(verdict)[:200])
        else:
            os.remove(path)
    completed = sum(r.completed for _, _, r in results) + sum(r[5].completed for r in crash_results)
    if completed == 0:
        V.harness.append("no path completed")
    cov = {
        "explanation": "Symbolic cut point: the real _load_offsets + real C pickle.load run over a file proxy whose length k "
                       "is a z3 integer in [0, %d]; each read forks on k, the solver partitions [0, N] into classes "
                       "(one path each) and the obligation 'no exception, same table, complete cache written back and "
                       "accepted by a second load' is decided per class; counterexamples and class witnesses are replayed "
                       "on a real truncated file in a scratch package copy." % N,
        "evaluations": completed, "distinct_nontrivial": completed,
        "rule": "one evaluation = one class of cut points (path) x BUILD_TZ_CACHE setting, plus the missing-file case",
        "samples": [c for c in classes],
        "crash_during_rewrite": {
            "explanation": "import #1 from {missing, empty, half, one byte short} dies at each file-system event of the "
                           "rebuild (inside the write after a symbolic number j of bytes, or just before an os call); "
                           "import #2 must succeed with the right table and leave a complete cache that import #3 reads "
                           "without rebuilding", "scenarios": crash_classes},
        "cache_bytes": N, "functions_encoded": ENCODED, "counterexamples_replayed": replayed,
        "counterexamples_reproduced": reproduced, "class_witnesses_validated_on_real_files": validated,
        "solver_queries": sum(r.checks for _, _, r in results) + sum(r[5].checks for r in crash_results),
        "solver_time_s": round(sum(r.solver_s for _, _, r in results) + sum(r[5].solver_s for r in crash_results), 2),
        "exhaustive": False,
    }
    runner.write_evidence(ID, tier, seed, cov, ASSUMPTIONS, time.time() - t0, len(V.violations))
    print("%s %s: classes=%d solver_calls=%d wall=%.0fs" % (ID, tier, completed, cov["solver_queries"], time.time() - t0))
    return V.exit_code()


# ------------------------------------------------------------------------------------------------ replay side
_CRASH_DRIVER = r'''
import sys, os, builtins
TMP, ROOT, E, J = sys.argv[1], sys.argv[2], int(sys.argv[3]), int(sys.argv[4])
sys.path.insert(0, TMP)
state = {"n": 0}
real_open = builtins.open
class W:
    def __init__(self, f, idx):
        self.f, self.idx, self.n = f, idx, 0
    def write(self, b):
        if self.idx == E:
            b = bytes(b)
            room = J - self.n
            if len(b) >= room:
                self.f.write(b[:room]); self.f.flush(); os._exit(9)      # the process dies inside this write
            self.n += len(b)
        return self.f.write(b)
    def __enter__(self):
        return self
    def __exit__(self, *a):
        self.f.close()
        return False
    def __getattr__(self, name):
        return getattr(self.f, name)
def fake_open(path, mode="r", *a, **kw):
    p = path if isinstance(path, int) else os.fspath(path)
    if isinstance(p, str) and p.startswith(ROOT) and any(c in mode for c in "wxa+"):
        idx = state["n"]; state["n"] += 1
        return W(real_open(path, mode, *a, **kw), idx)
    return real_open(path, mode, *a, **kw)
builtins.open = fake_open
def wrap(name):
    real = getattr(os, name)
    def f(*args, **kw):
        if any(str(x).startswith(ROOT) for x in args):
            idx = state["n"]; state["n"] += 1
            if idx == E:
                os._exit(9)                                              # ... or just before this call
        return real(*args, **kw)
    setattr(os, name, f)
for nme in ("replace", "rename", "remove", "unlink"):
    wrap(nme)
import dateparser
os._exit(0)
'''


def _native_crash(spec):
    """import #1 is really killed (os._exit) at the event / byte the solver chose, in a scratch copy of the package"""
    import shutil
    import subprocess
    import tempfile
    tmp = tempfile.mkdtemp(prefix="c19_", dir="/tmp")
    try:
        shutil.copytree(os.path.join(runner.REPO, "dateparser"), os.path.join(tmp, "dateparser"),
                        ignore=shutil.ignore_patterns("__pycache__"))
        if os.path.isdir(os.path.join(runner.REPO, "dateparser_data")):
            shutil.copytree(os.path.join(runner.REPO, "dateparser_data"), os.path.join(tmp, "dateparser_data"),
                            ignore=shutil.ignore_patterns("__pycache__", "cldr_language_data", "supplementary_language_data"))
        root = os.path.join(tmp, "dateparser", "data")
        cache = os.path.join(root, "dateparser_tz_cache.pkl")
        data = open(cache, "rb").read()
        k = INITIAL[spec["init"]]
        if k is None:
            os.remove(cache)
        else:
            with open(cache, "wb") as f:
                f.write(data[:{0: 0, -2: len(data) // 2, -1: len(data) - 1}[k]])
        env = dict(os.environ, PYTHONDONTWRITEBYTECODE="1")
        env.pop("BUILD_TZ_CACHE", None)
        if spec.get("use_hash"):
            env["BUILD_TZ_CACHE"] = "1"
        drv = os.path.join(tmp, "crash_driver.py")
        open(drv, "w").write(_CRASH_DRIVER)
        j = spec.get("j")
        p0 = subprocess.run([runner.PY, drv, tmp, root, str(spec["event"]), str(j if j is not None else 0)],
                            capture_output=True, text=True, env=env, timeout=120)
        what = "import #1 from a %s cache killed at file-system event %d (%s%s)" % (
            spec["init"], spec["event"], spec.get("event_kind"), "" if j is None else ", after %d bytes" % j)
        if p0.returncode != 9:
            return {"violates": False, "unrealizable": True,
                    "detail": "%s: the event was not reached natively (exit %d) %s" % (what, p0.returncode, p0.stderr[-200:])}
        left = sorted(os.listdir(root))
        code = ("import sys; sys.path.insert(0, %r); import dateparser, dateparser.timezone_parser as T; "
                "assert T.__file__.startswith(%r), T.__file__; import regex; parts=[]; "
                "ref=list(T.build_tz_offsets(parts)); "
                "sig=lambda L:[(n,i['regex'].pattern,int(i['regex'].flags),i['offset']) for n,i in L]; "
                "assert sig(T._tz_offsets)==sig(ref), 'table differs'; "
                "assert T._search_regex.pattern=='|'.join(parts) and T._search_regex_ignorecase.pattern=='|'.join(parts); "
                "print('OK')" % (tmp, tmp))
        p1 = subprocess.run([runner.PY, "-c", code], capture_output=True, text=True, env=env, timeout=120)
        if p1.returncode != 0:
            return {"violates": True, "detail": "%s; files left: %r; import #2 failed: %s" % (
                what, left, (p1.stderr.strip().splitlines() or ["?"])[-1][:200])}
        complete = False
        if os.path.exists(cache):
            try:
                complete = len(pickle.loads(open(cache, "rb").read())) == 4
            except Exception:
                complete = False
        if not complete:
            return {"violates": True, "detail": "%s; files left: %r; import #2 succeeded but the cache on disk is still not a "
                                                "complete table (files now: %r): the damage persists" % (what, left, sorted(os.listdir(root)))}
        return {"violates": False, "detail": "%s; import #2 ok and cache complete" % what}
    finally:
        shutil.rmtree(tmp, ignore_errors=True)


def native_check(spec):
    """real truncated file in a scratch copy of the package; `python -c 'import dateparser'` twice"""
    if spec.get("crash"):
        return _native_crash(spec)
    import shutil
    import subprocess
    import tempfile
    tmp = tempfile.mkdtemp(prefix="c19_", dir="/tmp")
    try:
        shutil.copytree(os.path.join(runner.REPO, "dateparser"), os.path.join(tmp, "dateparser"),
                        ignore=shutil.ignore_patterns("__pycache__"))
        if os.path.isdir(os.path.join(runner.REPO, "dateparser_data")):
            shutil.copytree(os.path.join(runner.REPO, "dateparser_data"), os.path.join(tmp, "dateparser_data"),
                            ignore=shutil.ignore_patterns("__pycache__", "cldr_language_data", "supplementary_language_data"))
        cache = os.path.join(tmp, "dateparser", "data", "dateparser_tz_cache.pkl")
        data = variants()[spec.get("variant", "shipped")] or open(cache, "rb").read()
        if spec.get("missing"):
            os.remove(cache)
            what = "missing cache"
        else:
            with open(cache, "wb") as f:
                f.write(data[:spec["k"]])
            what = "cache content %r truncated to %d of %d bytes" % (spec.get("variant", "shipped"), spec["k"], len(data))
        env = dict(os.environ, PYTHONDONTWRITEBYTECODE="1")
        env.pop("BUILD_TZ_CACHE", None)
        if spec.get("use_hash"):
            env["BUILD_TZ_CACHE"] = "1"
        code = ("import sys; sys.path.insert(0, %r); import dateparser, dateparser.timezone_parser as T; "
                "assert T.__file__.startswith(%r), T.__file__; import regex; parts=[]; "
                "ref=list(T.build_tz_offsets(parts)); "
                "sig=lambda L:[(n,i['regex'].pattern,int(i['regex'].flags),i['offset']) for n,i in L]; "
                "assert sig(T._tz_offsets)==sig(ref), 'table differs'; "
                "assert T._search_regex.pattern=='|'.join(parts) and T._search_regex_ignorecase.pattern=='|'.join(parts); "
                "print('OK', dateparser.parse('2014-01-05 10:20 EST'))" % (tmp, tmp))
        p1 = subprocess.run([runner.PY, "-c", code], capture_output=True, text=True, env=env, timeout=120)
        if p1.returncode != 0:
            return {"violates": True, "detail": "import with %s failed: %s" % (what, (p1.stderr.strip().splitlines() or ["?"])[-1][:200])}
        after = open(cache, "rb").read() if os.path.exists(cache) else None
        complete = False
        if after is not None:
            try:
                complete = len(pickle.loads(after)) == 4
            except Exception:
                complete = False
        if not complete:
            return {"violates": True, "detail": "after import with %s the cache on disk is still not a complete table" % what}
        m1 = os.stat(cache).st_mtime_ns
        p2 = subprocess.run([runner.PY, "-c", code], capture_output=True, text=True, env=env, timeout=120)
        if p2.returncode != 0:
            return {"violates": True, "detail": "second import failed: %s" % (p2.stderr.strip().splitlines() or ["?"])[-1][:200]}
        return {"violates": False, "detail": "import with %s ok; cache rewritten (%d bytes); second import ok" % (what, len(after))}
    finally:
        shutil.rmtree(tmp, ignore_errors=True)
