"""C15 — Jalali and Hijri dates convert to the right Gregorian date: dateparser's own part, modulo the third-party
converters (symx; converters as uninterpreted functions with a structural contract; the reference conversion itself is
applied on every replayed witness)."""
import datetime as _dt

import z3

from symx import core, dates
from symx.core import SInt, _zi, mkbool, mkint
from symx.strings import TStr, SChar, coerce, wrap
from symx.tmpl import tmpl, render
from . import common as C

ID = "C15"
ENCODED = ["dateparser.calendars.CalendarBase.get_date", "dateparser.calendars.non_gregorian_parser.parse/to_latin/"
           "_get_date_obj/_get_datetime_obj/_get_datetime_obj_params", "dateparser.calendars.jalali_parser.jalali_parser."
           "_replace_digits/_replace_months/_replace_weekdays/_replace_days/_replace_time/handle_two_digit_year",
           "dateparser.calendars.hijri_parser.hijri (converter wrapper) / hijri_parser", "dateparser.parser._parser (base "
           "class: tokenizer, component assignment, time parser)"]
ASSUMPTIONS = [
    "CLAIM MODULO THE CONVERTERS: convertdate.persian (float Julian-day arithmetic) and hijridate (table) are third-party "
    "code that is not encoded; to_gregorian / from_gregorian are uninterpreted functions returning an arbitrary valid date, "
    "month_length follows the structural contract (Persian: 31 for months 1-6, 30 for 7-11, 29 or 30 for month 12; Hijri: "
    "29 or 30) and is the REAL converter when its arguments are concrete (the parser's default year/month)",
    "obligation: for every valid written date (day <= month_length(year, month)) the parser hands exactly the written "
    "(year, month, day) to to_gregorian, once, and returns its result with the written clock time; every solver witness "
    "that violates it is replayed against the real converters used directly as the reference conversion",
    "bounded: Jalali years 1200-1500, Hijri years 1343-1500; numeric templates in ASCII and (Jalali) Persian digits, "
    "'D <Persian month name> YYYY', weekday words, every spelled-out day word, time suffixes; two-digit years per pivot",
]
PERSIAN_ZERO = 0x06F0
J_MONTHS = ["فروردین", "اردیبهشت", "خرداد", "تیر", "مرداد", "شهریور", "مهر", "آبان", "آذر", "دی", "بهمن", "اسفند"]
J_MONTHS_ALT = {5: "امرداد", 6: "شهريور", 11: "بهن"}
J_WEEKDAYS = ["یکشنبه", "دوشنبه", "سه شنبه", "چهارشنبه", "پنج شنبه", "جمعه", "شنبه"]

_INSTALLED = {}


def _install():
    if _INSTALLED:
        return _INSTALLED["ns"]
    n = C.ns()
    import convertdate.persian as real_persian
    import hijridate as real_hijri

    def memo(kind, args, make):
        tab = core.CUR.notes.setdefault("c15", {})
        key = (kind,) + tuple(a if isinstance(a, int) else ("z", a.z.get_id()) for a in args)
        if key not in tab:
            tab[key] = make()
            if kind == "tg":
                core.CUR.notes.setdefault("c15_calls", []).append(args)
        return tab[key]

    def fresh_date(prefix, ylo, yhi, gregorian):
        y, m, d = core.fresh_int(prefix + "y"), core.fresh_int(prefix + "m"), core.fresh_int(prefix + "d")
        if gregorian:
            core.add(dates.z_valid_date(y, m, d), y >= ylo, y <= yhi)
        else:
            core.add(y >= ylo, y <= yhi, m >= 1, m <= 12, d >= 1, d <= 29)
        return SInt(y), SInt(m), SInt(d)

    def conc(*a):
        return all(isinstance(x, int) for x in a)

    class StubPersian:
        @staticmethod
        def to_gregorian(year, month, day):
            if conc(year, month, day):
                return real_persian.to_gregorian(year, month, day)
            return memo("tg", (year, month, day), lambda: fresh_date("g", 1700, 2300, True))

        @staticmethod
        def from_gregorian(year, month, day):
            if conc(year, month, day):
                return real_persian.from_gregorian(year, month, day)
            return memo("fg", (year, month, day), lambda: fresh_date("j", 1200, 1500, False))

        @staticmethod
        def month_length(year, month):
            if conc(year, month):
                return real_persian.month_length(year, month)
            if isinstance(year, int):
                # concrete year (the parser's default year), symbolic month: the real lengths of that year's months
                mz = _zi(month)
                e = z3.IntVal(real_persian.month_length(year, 12))
                for mm in range(11, 0, -1):
                    e = z3.If(mz == mm, real_persian.month_length(year, mm), e)
                return mkint(e)

            def make():
                e = core.fresh_int("esfand")
                core.add(e >= 29, e <= 30)
                mz = _zi(month)
                return mkint(z3.If(mz <= 6, 31, z3.If(mz <= 11, 30, e)))
            return memo("ml", (year, month), make)

        @staticmethod
        def monthcalendar(year, month):
            raise core.Unsupported("persian.monthcalendar")
    n.JP.persian = StubPersian
    # the class attribute was bound to the module at import.  It is stubbed only if it IS the third-party module: a
    # converter defined in the repository itself is real code under test and runs as it is (symbolically where the
    # engine can, otherwise the path is inconclusive and probed concretely against the reference conversion)
    if getattr(n.JP.jalali_parser.calendar_converter, "__name__", "") == "convertdate.persian":
        n.JP.jalali_parser.calendar_converter = StubPersian
    else:
        _INSTALLED["own_converter"] = True

    class _Tuple:
        def __init__(self, t):
            self.t = t

        def datetuple(self):
            return self.t

    class StubHijri:
        def __init__(self, year=None, month=None, day=None, validate=True):
            self.y, self.m, self.d, self.validate = year, month, day, validate
            if conc(year, month, day) and validate:
                real_hijri.Hijri(year, month, day, validate=True)

        def to_gregorian(self):
            if conc(self.y, self.m, self.d):
                return _Tuple(real_hijri.Hijri(self.y, self.m, self.d, validate=False).to_gregorian().datetuple())
            return _Tuple(memo("tg", (self.y, self.m, self.d), lambda: fresh_date("g", 1900, 2100, True)))

        def month_length(self):
            if conc(self.y, self.m):
                return real_hijri.Hijri(self.y, self.m, 1).month_length()
            if isinstance(self.y, int):
                mz = _zi(self.m)
                e = z3.IntVal(real_hijri.Hijri(self.y, 12, 1).month_length())
                for mm in range(11, 0, -1):
                    e = z3.If(mz == mm, real_hijri.Hijri(self.y, mm, 1).month_length(), e)
                return mkint(e)

            def make():
                e = core.fresh_int("hml")
                core.add(e >= 29, e <= 30)
                return SInt(e)
            return memo("ml", (self.y, self.m), make)

        def datetuple(self):
            return (self.y, self.m, self.d)

    class StubGregorian:
        def __init__(self, year, month, day):
            self.a = (year, month, day)

        def to_hijri(self):
            if conc(*self.a):
                return _Tuple(real_hijri.Gregorian(*self.a).to_hijri().datetuple())
            return _Tuple(memo("fg", self.a, lambda: fresh_date("h", 1343, 1500, False)))
    n.HP.Hijri = StubHijri
    n.HP.Gregorian = StubGregorian
    _INSTALLED["ns"] = n
    return n


def _ml(cal, n, Y, M):
    if cal == "jalali":
        return n.JP.persian.month_length(Y, M)
    return n.HP.Hijri(Y, M, 1).month_length()


TEMPLATES = {
    "ymd_slash": [("Y", 4), "/", ("m", 2), "/", ("d", 2)],
    "ymd_dash": [("Y", 4), "-", ("m", 2), "-", ("d", 2)],
    "ymd_time": [("Y", 4), "/", ("m", 2), "/", ("d", 2), " ", ("H", 2), ":", ("M", 2)],
    "ymd_time_s": [("Y", 4), "-", ("m", 2), "-", ("d", 2), " ", ("H", 2), ":", ("M", 2), ":", ("S", 2)],
    "ymd_time_dot": [("Y", 4), "/", ("m", 2), "/", ("d", 2), " ", ("H", 2), ".", ("M", 2)],     # clock time written HH.MM
    "mdy_slash": [("m", 2), "/", ("d", 2), "/", ("Y", 4)],      # month first (the parsers' default order), year last
    "mdy_dash_time": [("m", 2), "-", ("d", 2), "-", ("Y", 4), " ", ("H", 2), ":", ("M", 2)],
}


def h_numeric(cal, template, persian_digits=False):
    parts = TEMPLATES[template]

    def fn():
        n = _install()
        ylo, yhi = (1200, 1500) if cal == "jalali" else (1343, 1500)
        v = {}
        if any(p == ("y", 2) for p in parts):
            v["y"] = C.field("y", 0, 99)
            if cal == "jalali":
                Y = mkint(z3.If(_zi(v["y"]) > 60, _zi(v["y"]) + 1300, _zi(v["y"]) + 1400))
            else:
                Y = mkint(z3.If(_zi(v["y"]) >= 90, _zi(v["y"]) + 1300, _zi(v["y"]) + 1400))
        else:
            v["Y"] = C.field("Y", ylo, yhi)
            Y = v["Y"]
        v["m"] = C.field("m", 1, 12)
        v["d"] = C.field("d", 1, 31)
        for k in "HMS":
            if any(p == (k, 2) for p in parts):
                v[k] = C.field(k, *C._RANGES[k])
        core.assume(mkbool(_zi(v["d"]) <= _zi(_ml(cal, n, Y, v["m"]))))
        s = tmpl(parts, v, base=PERSIAN_ZERO if persian_digits else 48)
        return _run(cal, n, s, Y, v["m"], v["d"], v.get("H", 0), v.get("M", 0), v.get("S", 0), dict(v))
    return fn


def h_named(month, alt=False, weekday=None, day_word=None, width=2, with_time=False, two_digit_year=False):
    """Jalali: 'D <Persian month name> YYYY' (+ weekday word, spelled-out day, time words)"""
    name = J_MONTHS_ALT[month] if alt else J_MONTHS[month - 1]

    def fn():
        n = _install()
        if two_digit_year:
            v = {"y": C.field("y", 0, 99)}
            Yv = mkint(z3.If(_zi(v["y"]) > 60, _zi(v["y"]) + 1300, _zi(v["y"]) + 1400))
        else:
            v = {"Y": C.field("Y", 1200, 1500)}
            Yv = v["Y"]
        parts = []
        if weekday is not None:
            parts.append(J_WEEKDAYS[weekday] + " ")
        if day_word is not None:
            word, num = day_word
            parts.append(word)
            d = num
        else:
            v["d"] = C.field("d", 1, 9 if width == 1 else 31)
            parts.append(("d", width))
            d = v["d"]
        parts += [" " + name + " ", ("y", 2) if two_digit_year else ("Y", 4)]
        if with_time:
            v["H"], v["M"] = C.field("H", 0, 23), C.field("M", 0, 59)
            parts += [" ساعت ", ("H", 2), ":", ("M", 2)]
        core.assume(mkbool(_zi(d) <= _zi(_ml("jalali", n, Yv, month))))
        s = tmpl(parts, v)
        return _run("jalali", n, s, Yv, month, d, v.get("H", 0), v.get("M", 0), 0, dict(v))
    return fn


def _run(cal, n, s, Y, M, D, H, Mi, S, wit):
    if _INSTALLED.get("own_converter") and cal == "jalali":
        # (float Julian-day arithmetic is typical of such converters and is outside the engine: every path is reported
        # inconclusive and its models - corner and scattered - are replayed against the reference conversion)
        raise core.Unsupported("the Jalali converter is repository code, not convertdate.persian: no stub contract applies")
    core.CUR.notes["c15_calls"] = []
    cls = n.CA.__dict__  # noqa
    Cal = __import__("dateparser.calendars.jalali", fromlist=["JalaliCalendar"]).JalaliCalendar if cal == "jalali" else \
        __import__("dateparser.calendars.hijri", fromlist=["HijriCalendar"]).HijriCalendar
    dd = Cal(s).get_date()
    if dd is None or dd.date_obj is None:
        return C.outcome(False, wit, "none")
    calls = core.CUR.notes.get("c15_calls", [])
    if len(calls) != 1:
        return C.outcome(False, wit, "calls:%d" % len(calls))
    cy, cm, cd = calls[0]
    tab = core.CUR.notes["c15"]
    gy, gm, gd = [v for k, v in tab.items() if k[0] == "tg"][0]
    do = dd.date_obj
    ok = z3.And(_zi(cy) == _zi(Y), _zi(cm) == _zi(M), _zi(cd) == _zi(D),
                _zi(do.year) == _zi(gy), _zi(do.month) == _zi(gm), _zi(do.day) == _zi(gd),
                _zi(do.hour) == _zi(H), _zi(do.minute) == _zi(Mi), _zi(do.second) == _zi(S), _zi(do.microsecond) == 0)
    return C.outcome(ok, wit, "converted")


def day_words():
    """(word, number) for every spelled-out day of the parser's own table (read natively from the repository)"""
    import json
    import subprocess
    from symx import runner
    code = ("import sys,json; sys.path.insert(0,%r); from dateparser.calendars.jalali_parser import jalali_parser as P;"
            "print(json.dumps([(w,k) for k,ws in P._number_letters.items() for w in ws if 1 <= k <= 31]))" % runner.REPO)
    r = subprocess.run([runner.PY, "-c", code], capture_output=True, text=True, timeout=120)
    return json.loads(r.stdout.strip().splitlines()[-1])


def tasks(tier, seed):
    out = []
    quick = tier == "quick"

    def add(name, fn, args, budget=200):
        out.append({"name": name, "fn": fn, "args": args, "budget_s": budget if quick else budget * 5, "max_paths": 20000})
    for cal in ("jalali", "hijri"):
        for t in TEMPLATES:
            add("%s:%s" % (cal, t), "h_numeric", {"cal": cal, "template": t})
    for t in ("ymd_slash", "ymd_time", "ymd_dash"):
        add("jalali:%s:persian-digits" % t, "h_numeric", {"cal": "jalali", "template": t, "persian_digits": True})
    months = range(1, 13) if not quick else sorted({12, seed % 12 + 1, (seed + 5) % 12 + 1})
    for m in months:
        add("jalali:named:%02d" % m, "h_named", {"month": m})
        if m in J_MONTHS_ALT:
            add("jalali:named:%02d:alt" % m, "h_named", {"month": m, "alt": True})
    add("jalali:named:07:w1", "h_named", {"month": 7, "width": 1})
    add("jalali:named:12:time", "h_named", {"month": 12, "with_time": True})
    add("jalali:named:03:yy", "h_named", {"month": 3, "two_digit_year": True})
    for wd in (range(7) if not quick else [seed % 7, (seed + 3) % 7]):
        add("jalali:weekday:%d" % wd, "h_named", {"month": (wd % 12) + 1, "weekday": wd})
    words = day_words()
    if quick:
        words = [words[(seed * 5 + 7 * j) % len(words)] for j in range(8)] + [w for w in words if w[1] in (13, 30, 3, 31)]
    seen = set()
    for w, k in words:
        if (w, k) in seen:
            continue
        seen.add((w, k))
        add("jalali:dayword:%d:%s" % (k, w), "h_named", {"month": 2 if k <= 31 else 1, "day_word": [w, k]})
    return out


# ------------------------------------------------------------------------------------------------ replay side
def build_spec(task, viol):
    return build_spec_inner(task, C.ints(viol["witness"]), realize=True)


def build_spec_inner(task, w, realize=False):
    a = task["args"]
    if task["fn"] == "h_numeric":
        parts = TEMPLATES[a["template"]]
        s = render(parts, w, base=PERSIAN_ZERO if a.get("persian_digits") else 48)
        cal = a["cal"]
        if "y" in w:
            Y = (w["y"] + 1300 if w["y"] > 60 else w["y"] + 1400) if cal == "jalali" else (w["y"] + 1300 if w["y"] >= 90 else w["y"] + 1400)
        else:
            Y = w["Y"]
        M, D = w["m"], w["d"]
    else:
        cal = "jalali"
        name = J_MONTHS_ALT[a["month"]] if a.get("alt") else J_MONTHS[a["month"] - 1]
        parts = []
        if a.get("weekday") is not None:
            parts.append(J_WEEKDAYS[a["weekday"]] + " ")
        if a.get("day_word") is not None:
            parts.append(a["day_word"][0])
            D = a["day_word"][1]
        else:
            parts.append(("d", a.get("width", 2)))
            D = w["d"]
        parts += [" " + name + " ", ("y", 2) if a.get("two_digit_year") else ("Y", 4)]
        if a.get("with_time"):
            parts += [" ساعت ", ("H", 2), ":", ("M", 2)]
        s = render(parts, w)
        Y = (w["y"] + 1300 if w["y"] > 60 else w["y"] + 1400) if a.get("two_digit_year") else w["Y"]
        M = a["month"]
    spec = {"task": task["name"], "cal": cal, "string": s, "ymd": [Y, M, D], "hms": [w.get("H", 0), w.get("M", 0), w.get("S", 0)]}
    return _realize(spec, task, w) if realize else spec


def _realize(spec, task, w):
    """month lengths are uninterpreted in the symbolic run: a witness with day 30 may name a year in which that month has
    29 days under the real converter.  Move the witness to the nearest year (same month, day, time) where the real
    converter gives the month 30 days, and re-render the string."""
    Y, M, D = spec["ymd"]
    if D != 30:
        return spec
    try:
        if spec["cal"] == "jalali":
            from convertdate import persian
            ok = lambda y: persian.month_length(y, M) >= 30    # noqa
            lo, hi = 1200, 1500
        else:
            from hijridate import Hijri
            ok = lambda y: Hijri(y, M, 1).month_length() >= 30   # noqa
            lo, hi = 1343, 1500
        if ok(Y):
            return spec
        for delta in range(1, 300):
            for y2 in (Y + delta, Y - delta):
                if lo <= y2 <= hi and ok(y2):
                    a = task["args"]
                    if "Y" in w:
                        w2 = dict(w, Y=y2)
                    elif "y" in w and y2 % 100 != w["y"]:
                        continue
                    else:
                        w2 = dict(w)
                    spec2 = build_spec_inner(task, w2)
                    if spec2["ymd"][0] == y2:
                        return spec2
    except Exception:
        pass
    return spec


def native_check(spec):
    from symx import native
    native.import_repo()
    from dateparser.calendars.jalali import JalaliCalendar
    from dateparser.calendars.hijri import HijriCalendar
    Y, M, D = spec["ymd"]
    if spec["cal"] == "jalali":
        from convertdate import persian
        if D > persian.month_length(Y, M):
            return {"violates": False, "unrealizable": True,
                    "detail": "witness is not a valid Jalali date under the real converter: %r" % (spec["ymd"],)}
        ref = persian.to_gregorian(Y, M, D)
        got = JalaliCalendar(spec["string"]).get_date()
    else:
        from hijridate import Hijri
        try:
            h = Hijri(Y, M, D, validate=True)
        except Exception:
            return {"violates": False, "unrealizable": True,
                    "detail": "witness is not a valid Hijri date under the real converter: %r" % (spec["ymd"],)}
        ref = h.to_gregorian().datetuple()
        got = HijriCalendar(spec["string"]).get_date()
    exp = _dt.datetime(*ref, *spec["hms"])
    g = got.date_obj if got is not None else None
    return {"violates": g != exp, "detail": "%sCalendar(%r).get_date() -> %r; reference conversion of %r gives %r" % (
        spec["cal"].capitalize(), spec["string"], g, spec["ymd"], exp)}


def classify_known(spec, verdict, known):
    return None
