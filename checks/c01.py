"""C01 — standard absolute date/time formats round-trip exactly (symx, public API entry)."""
import datetime as _dt

import z3

from symx import core, dates
from symx.core import SInt, _zi
from symx.tmpl import tmpl, render
from . import common as C

ID = "C01"
ENCODED = ["dateparser.date.DateDataParser.get_date_data", "dateparser.date.sanitize_date",
           "dateparser.date.get_date_from_timestamp", "dateparser.date._DateLocaleParser.*",
           "dateparser.date_parser.DateParser.parse", "dateparser.parser._parser.*", "dateparser.parser.tokenizer.*",
           "dateparser.parser._time_parser", "dateparser.utils.strptime.strptime", "_strptime._strptime (stdlib clone)",
           "dateparser.freshness_date_parser.FreshnessDateDataParser.*", "dateparser.languages.locale.Locale.translate",
           "dateparser.languages.locale.Locale.is_applicable", "dateparser.languages.dictionary.Dictionary.split",
           "dateparser.timezone_parser.pop_tz_offset_from_string", "dateparser.utils.apply_timezone_from_settings"]
ASSUMPTIONS = [
    "bounded claim: holds for every value of the symbolic fields in the stated ranges, for the listed templates and "
    "configurations only (language en selected, or autodetection for the marked templates)",
    "letters/separators of a template are concrete; only decimal fields, PREFER_* choices and the clock are symbolic",
    "date theory (symx.dates) stands for CPython datetime/calendar; symbolic regex stands for re/regex on templates",
    "clock stub: now()/today() return one arbitrary valid instant per call of the API; process-local zone is UTC",
    "TIMEZONE values for epoch forms: fixed-offset zones (pytz UTC/Etc, table offsets) and tz-database zones with "
    "transitions (pytz's own code executed symbolically; instants whose wall clock in the zone exists exactly once, within a "
    "window of years; oracle = zoneinfo-derived table)",
    "RFC-2822 form: the weekday word is the true weekday of the date (assumed, as a real rendering has it)",
]

DATE = [("Y", 4), "-", ("m", 2), "-", ("d", 2)]
HMS = [("H", 2), ":", ("M", 2), ":", ("S", 2)]

# name -> (parts, which fields are written)
FORMS = {
    "iso_date": DATE,
    "iso_slash": [("Y", 4), "/", ("m", 2), "/", ("d", 2)],
    "iso_hm": DATE + [" ", ("H", 2), ":", ("M", 2)],
    "iso_hms": DATE + [" "] + HMS,
    "iso_T_hm": DATE + ["T", ("H", 2), ":", ("M", 2)],
    "iso_T_hms": DATE + ["T"] + HMS,
    "iso_f1": DATE + [" "] + HMS + [".", ("f", 1)],
    "iso_f3": DATE + [" "] + HMS + [".", ("f", 3)],
    "iso_f6": DATE + [" "] + HMS + [".", ("f", 6)],
    "iso_T_f3": DATE + ["T"] + HMS + [".", ("f", 3)],
    "iso_T_f6": DATE + ["T"] + HMS + [".", ("f", 6)],
}


def _named_forms():
    out = {}
    for mi in range(12):
        long_, abbr = C.EN_MONTHS[mi].capitalize(), C.EN_MON[mi].capitalize()
        m = mi + 1
        out["dMonY_%02d" % m] = ([("d", 2), " " + abbr + " ", ("Y", 4)], m)
        out["d1MonthY_%02d" % m] = ([("d", 1), " " + long_ + " ", ("Y", 4)], m)
        out["d2MonthY_%02d" % m] = ([("d", 2), " " + long_ + " ", ("Y", 4)], m)
        out["Monthd1Y_%02d" % m] = ([long_ + " ", ("d", 1), ", ", ("Y", 4)], m)
        out["Monthd2Y_%02d" % m] = ([long_ + " ", ("d", 2), ", ", ("Y", 4)], m)
        out["MondYhm_%02d" % m] = ([abbr + " ", ("d", 2), " ", ("Y", 4), " ", ("H", 2), ":", ("M", 2)], m)
        out["MonthdYam_%02d" % m] = ([long_ + " ", ("d", 2), ", ", ("Y", 4), " ", ("I", 2), ":", ("M", 2), " AM"], m)
        out["MonthdYpm_%02d" % m] = ([long_ + " ", ("d", 2), ", ", ("Y", 4), " ", ("I", 2), ":", ("M", 2), " PM"], m)
        for wi in range(7):
            w = C.EN_DAY3[wi].capitalize()
            out["rfc_%s_%02d" % (C.EN_DAY3[wi], m)] = (
                [w + ", ", ("d", 2), " " + abbr + " ", ("Y", 4), " "] + HMS, m, wi)
    return out


NAMED = _named_forms()
EPOCH = {
    "epoch_s": [("n", 10)],
    "epoch_ms": [("n", 10), ("ms", 3)],
    "epoch_us": [("n", 10), ("ms", 3), ("us", 3)],
}
EPOCH_TZ = ["UTC", "+0530", "-0800", "Etc/GMT-14", "Etc/GMT+5", "UTC-03:30", "+1245", "PST", "local", "-0930", "-02:30", "GMT-0430"]


def _written(parts):
    return {p[0]: p[1] for p in parts if not isinstance(p, str)}


# ------------------------------------------------------------------------------------------------ harnesses
def h_form(form, languages):
    if form in FORMS:
        parts, month, wday = FORMS[form], None, None
    else:
        ent = NAMED[form]
        parts, month, wday = ent[0], ent[1], (ent[2] if len(ent) > 2 else None)
    w = _written(parts)

    def fn():
        fixed = {"m": month} if month is not None else {}
        v = {}
        v["Y"] = C.field("Y", 1, 9999)
        v["m"] = month if month is not None else C.field("m", 1, 12)
        dlo, dhi = (1, 9) if w.get("d") == 1 else (1, 31)
        v["d"] = C.field("d", dlo, dhi)
        core.assume(core.mkbool(_zi(v["d"]) <= dates.z_dim(_zi(v["Y"]), _zi(v["m"]))))
        for n in "HMS":
            v[n] = C.field(n, *C._RANGES[n]) if n in w else 0
        if "I" in w:
            v["I"] = C.field("I", 1, 12)
            pm = parts[-1].strip() == "PM"
            # 12 AM = 00, 12 PM = 12
            v["H"] = core.mkint(z3.If(_zi(v["I"]) == 12, 12 if pm else 0, _zi(v["I"]) + (12 if pm else 0)))
        if "f" in w:
            v["f"] = C.field("f", 0, 10 ** w["f"] - 1)
            us = v["f"] * (10 ** (6 - w["f"]))
        else:
            us = 0
        if wday is not None:
            core.assume(core.mkbool((dates.z_ord(_zi(v["Y"]), _zi(v["m"]), _zi(v["d"])) + 6) % 7 == wday))
        st, wit = C.pref_settings()
        s = tmpl(parts, v)
        dd = C.api(s, languages=languages, settings=st)
        wit.update({k: x for k, x in v.items()})
        do = dd.date_obj
        if do is None:
            return C.outcome(False, wit, "none")
        ok = z3.And(C.dt_is(do, v["Y"], v["m"], v["d"], v["H"], v["M"], v["S"], us), do.tzinfo is None,
                    dd.period == "day")
        return C.outcome(ok, wit, "parsed")
    return fn


def h_epoch(form, tz, negative, window=None):
    parts = EPOCH[form]
    dst = "/" in tz and not tz.startswith("Etc/")

    def fn():
        if dst:
            lo = int((_dt.datetime(window[0], 1, 2) - _dt.datetime(1970, 1, 1)).total_seconds())
            hi = int((_dt.datetime(window[1], 12, 30) - _dt.datetime(1970, 1, 1)).total_seconds())
            n = C.field("n", max(lo, 10 ** 9), min(hi, 10 ** 10 - 1))
        else:
            n = C.field("n", 10 ** 9, 10 ** 10 - 1)
        v = {"n": n, "ms": C.field("ms", 0, 999) if len(parts) > 1 else 0,
             "us": C.field("us", 0, 999) if len(parts) > 2 else 0}
        st, wit = C.pref_settings()
        if tz != "local":
            st["TIMEZONE"] = tz
        if negative:
            st["PARSERS"] = ["negative-timestamp", "timestamp", "relative-time", "absolute-time"]
        s = tmpl((["-"] if negative else []) + parts, v)
        dd = C.api(s, languages=["en"], settings=st)
        wit.update(v)
        do = dd.date_obj
        if do is None:
            return C.outcome(False, wit, "none")
        if dst:
            # tz-database zone with transitions: pytz's fromutc/localize run symbolically; oracle = zoneinfo-derived table;
            # premise: the instant's wall clock in the zone exists exactly once (the library goes through that wall clock)
            from . import zones
            tab = zones.table(tz, window[0] - 1, window[1] + 1)
            uo, ur = dates.EPOCH_ORD + _zi(n) / 86400, (_zi(n) % 86400) * 1000000
            zoff = zones.z_offset_at_utc(tab, uo, ur)
            o, r0 = zones._shift(uo, ur, zoff)
            once, _, _, _ = zones.z_local_to_utc(tab, o, r0)
            if not core.branch(z3.simplify(once)):
                return C.outcome(True, wit, "repeated-hour (outside the premise)")
            r = r0 + _zi(v["ms"]) * 1000 + _zi(v["us"])
            ok = z3.And(do._ord() == o, do._us_of_day() == r, do.tzinfo is None, dd.period == "day")
            return C.outcome(ok, wit, "parsed")
        off = _tz_offset_s(tz)
        secs = (-_zi(n) if negative else _zi(n)) + off
        o = dates.EPOCH_ORD + secs / 86400
        r = (secs % 86400) * 1000000 + _zi(v["ms"]) * 1000 + _zi(v["us"])
        ok = z3.And(do._ord() == o, do._us_of_day() == r, do.tzinfo is None, dd.period == "day")
        return C.outcome(ok, wit, "parsed")
    return fn


def _tz_offset_s(tz):
    """offset of a fixed-offset TIMEZONE string, computed independently of the repository"""
    import re
    if tz in ("UTC", "local"):
        return 0
    if tz == "PST":      # a table abbreviation that is not a tz-database name (those may have transitions: outside)
        return -8 * 3600
    m = re.fullmatch(r"Etc/GMT([+-])(\d+)", tz)
    if m:
        return (-1 if m.group(1) == "+" else 1) * int(m.group(2)) * 3600
    m = re.fullmatch(r"(?:UTC|GMT)?([+-])(\d\d):?(\d\d)", tz)
    if m:
        return (1 if m.group(1) == "+" else -1) * (int(m.group(2)) * 3600 + int(m.group(3)) * 60)
    raise ValueError(tz)


# ------------------------------------------------------------------------------------------------ task lists
def tasks(tier, seed):
    out = []

    def add(name, fn, args, budget):
        out.append({"name": name, "fn": fn, "args": args, "budget_s": budget, "max_paths": 5000})
    quick = tier == "quick"
    iso = ["iso_date", "iso_slash", "iso_hm", "iso_hms", "iso_T_hms", "iso_f3", "iso_f6"] if quick else list(FORMS)
    for f in iso:
        add("en:" + f, "h_form", {"form": f, "languages": ["en"]}, 240 if quick else 1800)
        if "_f" in f:
            out[-1]["solver_timeout_ms"] = 150000     # fraction digits may flow through IEEE arithmetic (bit-blasted)
    add("auto:iso_date", "h_form", {"form": "iso_date", "languages": None}, 240 if quick else 900)
    if not quick:
        add("auto:iso_hms", "h_form", {"form": "iso_hms", "languages": None}, 1800)
    named = sorted(NAMED)
    if quick:
        # a seed-rotated slice of the 12 x (8 + 7) named-month templates: 12 per run
        kinds = ["dMonY", "d1MonthY", "Monthd2Y", "MondYhm", "MonthdYam", "MonthdYpm", "rfc"]
        pick = []
        for i, k in enumerate(kinds):
            m = (seed + 5 * i) % 12 + 1
            if k == "rfc":
                pick.append("rfc_%s_%02d" % (C.EN_DAY3[(seed + i) % 7], m))
                pick.append("rfc_%s_%02d" % (C.EN_DAY3[(seed + i + 3) % 7], (m + 6) % 12 + 1))
            else:
                pick.append("%s_%02d" % (k, m))
        named = pick
    for f in named:
        add("en:" + f, "h_form", {"form": f, "languages": ["en"]}, 200 if quick else 900)
    if quick:
        add("auto:" + named[0], "h_form", {"form": named[0], "languages": None}, 200)
    eps = [("epoch_s", "UTC", False), ("epoch_ms", "+0530", False), ("epoch_us", "-0800", False),
           ("epoch_us", "UTC", True), ("epoch_ms", "local", False),
           ("epoch_s", ["Etc/GMT+5", "Etc/GMT-14"][seed % 2], False),
           ("epoch_ms", ["UTC-03:30", "-0930", "-02:30", "GMT-0430"][seed % 4], False)] if quick else \
        [(f, tz, neg) for f in EPOCH for tz in EPOCH_TZ for neg in (False, True)]
    for f, tz, neg in eps:
        add("epoch:%s:%s:%s" % (f, tz, "neg" if neg else "pos"), "h_epoch", {"form": f, "tz": tz, "negative": neg}, 200)
    from . import zones
    win = [2021, 2021] if quick else [1971, 2036]
    dz = [z for z in ["America/New_York", "Europe/Paris", "Australia/Lord_Howe", "Asia/Kolkata"]
          if zones.usable(z, win[0] - 1, win[1] + 1)]
    for j, z in enumerate(dz if not quick else dz[seed % max(1, len(dz)):][:1]):
        add("epoch:epoch_ms:%s:pos" % z, "h_epoch", {"form": "epoch_ms", "tz": z, "negative": False,
                                                       "window": [2021, 2021] if quick else [1971, 2036]}, 200)
    return out


# ------------------------------------------------------------------------------------------------ replay side
def build_spec(task, viol):
    w = C.ints(viol["witness"])
    a = task["args"]
    spec = {"task": task["name"], "witness": w, "clock": C.clock_from_witness(w)}
    if task["fn"] == "h_form":
        form = a["form"]
        parts = FORMS[form] if form in FORMS else NAMED[form][0]
        vals = dict(w)
        if form in NAMED:
            vals["m"] = NAMED[form][1]
        wr = _written(parts)
        H = w.get("H", 0)
        if "I" in wr:
            pm = parts[-1].strip() == "PM"
            H = (12 if pm else 0) if w["I"] == 12 else w["I"] + (12 if pm else 0)
        us = w.get("f", 0) * 10 ** (6 - wr["f"]) if "f" in wr else 0
        spec["call"] = {"string": render(parts, vals), "languages": a["languages"], "settings": C.spec_settings({}, w)}
        spec["expect"] = [w["Y"], vals["m"], w["d"], H if ("H" in wr or "I" in wr) else 0,
                          w.get("M", 0) if "M" in wr else 0, w.get("S", 0) if "S" in wr else 0, us]
    else:
        parts = (["-"] if a["negative"] else []) + EPOCH[a["form"]]
        st = C.spec_settings({}, w)
        if a["tz"] != "local":
            st["TIMEZONE"] = a["tz"]
        if a["negative"]:
            st["PARSERS"] = ["negative-timestamp", "timestamp", "relative-time", "absolute-time"]
        spec["call"] = {"string": render(parts, w), "languages": ["en"], "settings": st}
        n = -w["n"] if a["negative"] else w["n"]
        if a.get("window"):
            from . import zones
            tab = zones.table(a["tz"], a["window"][0] - 1, a["window"][1] + 1)
            zoff = zones.offset_at_utc_native(tab, _dt.datetime(1970, 1, 1) + _dt.timedelta(seconds=n))
        else:
            zoff = _tz_offset_s(a["tz"])
        e = _dt.datetime(1970, 1, 1) + _dt.timedelta(seconds=n + zoff,
                                                     microseconds=w.get("ms", 0) * 1000 + w.get("us", 0))
        spec["expect"] = [e.year, e.month, e.day, e.hour, e.minute, e.second, e.microsecond]
    return spec


def native_check(spec):
    from symx import native
    res = native.call_api(spec["call"], spec.get("clock"))
    exp = _dt.datetime(*spec["expect"])
    if "exception" in res:
        return {"violates": True, "detail": "raised %s" % res["exception"], "got": None}
    got = res["date_obj"]
    bad = not (got is not None and got.tzinfo is None and _dt.datetime(*got.timetuple()[:6], got.microsecond) == exp
               and res["period"] == "day")
    return {"violates": bad, "detail": "parse(%r, %r) -> %r period=%r, expected %r period='day'" % (
        spec["call"]["string"], spec["call"]["settings"], got, res["period"], exp), "got": str(got)}


def classify_known(spec, verdict, known):
    return None
