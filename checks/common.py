"""Shared pieces of the symx-based checks: symbolic fields, API entry, witnesses, concrete specs for replay."""
import z3

from symx import core, dates, loader
from symx.core import SInt, SEnum, PathOutcome, assume, mkbool, _zi
from symx.tmpl import tmpl, render

EN_MONTHS = ["january", "february", "march", "april", "may", "june", "july", "august", "september", "october",
             "november", "december"]
EN_MON = ["jan", "feb", "mar", "apr", "may", "jun", "jul", "aug", "sep", "oct", "nov", "dec"]
EN_DAYS = ["monday", "tuesday", "wednesday", "thursday", "friday", "saturday", "sunday"]
EN_DAY3 = ["mon", "tue", "wed", "thu", "fri", "sat", "sun"]

PREFS = {
    "PREFER_DAY_OF_MONTH": ["current", "first", "last"],
    "PREFER_MONTH_OF_YEAR": ["current", "first", "last"],
    "PREFER_DATES_FROM": ["current_period", "past", "future"],
}

_RANGES = {"Y": (1, 9999), "m": (1, 12), "d": (1, 31), "H": (0, 23), "M": (0, 59), "S": (0, 59), "I": (1, 12)}


def ns():
    return loader.install()


def field(name, lo, hi):
    v = z3.Int(name)
    core.add(v >= lo, v <= hi)
    core.register_input(name, v, lo, hi)
    return SInt(v)


def date_fields(prefix="", ymin=1, ymax=9999, fixed=None):
    """Y, m, d of a valid calendar date (fixed: name -> concrete int)"""
    fixed = fixed or {}
    out = {}
    for n, (lo, hi) in (("Y", (ymin, ymax)), ("m", (1, 12)), ("d", (1, 31))):
        out[n] = fixed[n] if n in fixed else field(prefix + n, lo, hi)
    if not all(isinstance(out[k], int) for k in "Ymd"):
        core.assume(mkbool(_zi(out["d"]) <= dates.z_dim(_zi(out["Y"]), _zi(out["m"]))))
    return out


def time_fields(prefix="", names="HMS", fixed=None):
    fixed = fixed or {}
    out = {}
    for n in names:
        lo, hi = _RANGES[n]
        out[n] = fixed[n] if n in fixed else field(prefix + n, lo, hi)
    return out


def pref_settings(which=("PREFER_DAY_OF_MONTH", "PREFER_MONTH_OF_YEAR", "PREFER_DATES_FROM")):
    """symbolic PREFER_* choices; returns (settings dict part, witness part)"""
    st, wit = {}, {}
    for k in which:
        e = SEnum(k, PREFS[k])
        e.constrain()
        core.register_input(k, e.z)
        st[k] = e
        wit[k] = e.z
    return st, wit


def concretize_prefs(witness):
    out = {}
    for k, vals in PREFS.items():
        if k in witness and isinstance(witness[k], int):
            out[k] = vals[witness[k]]
    return out


def sym_base(prefix="b", ymin=1, ymax=9999, with_us=True, tzinfo=None):
    b = dates.sym_datetime(prefix, ymin, ymax, tzinfo=tzinfo, with_us=with_us)
    rng = {"year": (ymin, ymax), "month": (1, 12), "day": (1, 28), "hour": (0, 23), "minute": (0, 59), "second": (0, 59),
           "microsecond": (0, 999999)}
    for f in dates._FIELDS:
        t = getattr(b, f)
        if isinstance(t, SInt):
            core.register_input("%s_%s" % (prefix, f), t.z, *rng[f])
    return b


def base_witness(b, prefix="b"):
    return dates.witness_of(b, prefix)


def base_from_witness(w, prefix="b"):
    try:
        return [int(w["%s_%s" % (prefix, f)]) for f in dates._FIELDS]
    except KeyError:
        return None


def outcome(prop, witness, label=None, info=None, known=None):
    """PathOutcome that also carries the clock stub's value when the path consulted the clock"""
    clk = core.CUR.notes.get("clock")
    if clk is not None:
        witness = dict(witness)
        witness.update(dates.witness_of(clk, "clock"))
    return PathOutcome(prop, witness, label, info, known)


def clock_from_witness(w):
    return base_from_witness(w, "clock")


def dt_is(do, Y, m, d, H=0, M=0, S=0, us=0):
    return z3.And(_zi(do.year) == _zi(Y), _zi(do.month) == _zi(m), _zi(do.day) == _zi(d), _zi(do.hour) == _zi(H),
                  _zi(do.minute) == _zi(M), _zi(do.second) == _zi(S), _zi(do.microsecond) == _zi(us))


def api(string, languages=None, settings=None, date_formats=None, locales=None, region=None, use_given_order=False):
    n = ns()
    parser = n.D.DateDataParser(languages=languages, locales=locales, region=region, use_given_order=use_given_order,
                                settings=settings)
    return parser.get_date_data(string, date_formats)


def ints(witness):
    return {k: v for k, v in witness.items() if isinstance(v, (int, bool))}


def spec_settings(static, witness, base_prefix="b"):
    """JSON-able settings for the replay: static (concrete) entries + PREFER_* from the witness + RELATIVE_BASE"""
    st = dict(static or {})
    st.update(concretize_prefs(witness))
    b = base_from_witness(witness, base_prefix)
    if b is not None:
        st["RELATIVE_BASE"] = b
    return st


# ------------------------------------------------------------------------------------------------ shipped vocabulary
_LANG_CACHE = {}


def repo_path(*p):
    import os
    from symx import runner
    return os.path.join(runner.REPO, *p)


def language_info(lang):
    """the `info` dict of a language data module, read from the repository's source with ast (no import)"""
    import ast
    if lang not in _LANG_CACHE:
        src = open(repo_path("dateparser", "data", "date_translation_data", lang + ".py"),
                   encoding="utf-8").read()
        tree = ast.parse(src)
        node = [n for n in tree.body if isinstance(n, ast.Assign) and n.targets[0].id == "info"][0]
        _LANG_CACHE[lang] = ast.literal_eval(node.value)
    return _LANG_CACHE[lang]


def languages_index():
    """(language_order, language_locale_dict) read from dateparser/data/languages_info.py with ast"""
    import ast
    if "_index" not in _LANG_CACHE:
        tree = ast.parse(open(repo_path("dateparser", "data", "languages_info.py"), encoding="utf-8").read())
        vals = {}
        for n in tree.body:
            if isinstance(n, ast.Assign) and isinstance(n.targets[0], ast.Name):
                try:
                    vals[n.targets[0].id] = ast.literal_eval(n.value)
                except ValueError:
                    pass
        _LANG_CACHE["_index"] = (vals["language_order"], vals["language_locale_dict"])
    return _LANG_CACHE["_index"]


def locale_date_order(lang, locale=None):
    """the order a locale's users write numeric dates in: taken from the CLDR source the repository's generator reads
    (dateparser_data/cldr_language_data/...json), NOT from the generated module the library loads - so that an edit of
    the shipped data is judged against its source; languages without a CLDR source fall back to the module"""
    import json
    import os
    src = repo_path("dateparser_data", "cldr_language_data", "date_translation_data", lang + ".json")
    if os.path.exists(src):
        key = "_cldr_" + lang
        if key not in _LANG_CACHE:
            _LANG_CACHE[key] = json.load(open(src, encoding="utf-8"))
        info = _LANG_CACHE[key]
    else:
        info = language_info(lang)
    order = info.get("date_order")
    if locale and locale != lang:
        order = info.get("locale_specific", {}).get(locale, {}).get("date_order", order)
    return order


UNIT_KEYS = ["decade", "year", "month", "week", "day", "hour", "minute", "second", "ago", "in", "am", "pm"]


def combined_info(lang, locale=None):
    """language data with the locale_specific overlay applied the way the library documents it (lists are
    concatenated, dicts merged recursively, scalars replaced) — computed here independently from the data files"""
    info = language_info(lang)
    over = info.get("locale_specific", {}).get(locale, {}) if locale and locale != lang else {}

    def comb(p, s):
        out = {}
        for k, v in p.items():
            if k in s:
                if isinstance(v, list):
                    out[k] = v + s[k]
                elif isinstance(v, dict):
                    out[k] = comb(v, s[k])
                else:
                    out[k] = s[k]
            else:
                out[k] = v
        for k in s:
            if k not in p:
                out[k] = s[k]
        return out
    res = comb(info, over)
    res.pop("locale_specific", None)
    return res


def meanings(info):
    """lower-cased vocabulary word -> set of meanings it is listed under"""
    m = {}

    def put(word, meaning):
        if isinstance(word, str) and word:
            m.setdefault(word.lower(), set()).add(meaning)
    for i, k in enumerate(EN_MONTHS):
        for w in info.get(k, []):
            put(w, ("month", i + 1))
    for i, k in enumerate(EN_DAYS):
        for w in info.get(k, []):
            put(w, ("weekday", i))
    for k in UNIT_KEYS:
        for w in info.get(k, []):
            put(w, ("word", k))
    for k in ("skip", "pertain"):
        for w in info.get(k, []):
            put(w, ("skip", None))
    for canon, ws in info.get("relative-type", {}).items():
        for w in ws:
            put(w, ("relative", canon))
    return m
