"""C11 — a timezone written in the string yields exactly that offset (symx, public API entry)."""
import datetime as _dt
import json
import re
import subprocess

import z3

from symx import core, dates, runner
from symx.core import _zi, mkbool
from symx.tmpl import tmpl, render
from . import common as C

ID = "C11"
FID_CZ = "C11-diacritic-abbreviations"
ENCODED = ["dateparser.date.DateDataParser.get_date_data/_get_applicable_locales", "dateparser.date_parser.DateParser.parse",
           "dateparser.timezone_parser.pop_tz_offset_from_string (first-match loop over the loaded table)",
           "dateparser.timezone_parser.StaticTzInfo", "dateparser.parser._parser.*", "dateparser.utils.strptime.strptime",
           "dateparser.languages.locale.Locale.translate/is_applicable"]
ASSUMPTIONS = [
    "bounded claim: for each visited entry of the LOADED timezone table (names and offsets read from the repository's own "
    "import in a sub-process on every run) and each spelling, the body 'YYYY-MM-DD HH:MM' is parsed with the time digits "
    "symbolic (date concrete) or, for the fully symbolic tasks, with all digits symbolic (years 1-9999); English selected, "
    "autodetection for a reduced set",
    "an abbreviation listed several times with different offsets (LMT) is excluded: 'the listed offset' is ambiguous",
    "pickling/copying: the zone object of the result is round-tripped through pickle/copy/deepcopy inside each path (a "
    "ground fact per table entry, not solver-quantified); the datetime fields themselves are symbolic",
    "date theory (symx.dates) stands for CPython datetime/calendar; symbolic regex stands for re/regex on templates",
    "while finding C11-diacritic-abbreviations is open, abbreviations that change under the library's own accent-stripping "
    "normalisation are not visited symbolically; the finding is re-confirmed natively from its listed example",
]


def load_table():
    """[(name, offset_seconds)] of the loaded table, first occurrence of each name, in table order; names whose
    occurrences disagree on the offset are dropped"""
    code = ("import sys,json; sys.path.insert(0,%r); from dateparser.timezone_parser import _tz_offsets as T; "
            "print(json.dumps([(n, int(i['offset'].total_seconds())) for n,i in T]))" % runner.REPO)
    r = subprocess.run([runner.PY, "-c", code], capture_output=True, text=True, timeout=120)
    rows = json.loads(r.stdout.strip().splitlines()[-1])
    seen, bad = {}, set()
    for n, o in rows:
        if n in seen and seen[n] != o:
            bad.add(n)
        seen.setdefault(n, o)
    return [(n, o) for n, o in seen.items() if n not in bad], len(rows)


def spellings(name, off):
    m = re.fullmatch(r"UTC\\([+-])(\d\d):(\d\d)", name)
    if not m:
        return None
    s, hh, mm = m.groups()
    out = ["UTC%s%s:%s" % (s, hh, mm), "GMT%s%s:%s" % (s, hh, mm), "%s%s:%s" % (s, hh, mm), "%s%s%s" % (s, hh, mm),
           "UTC%s%s%s" % (s, hh, mm), "GMT%s%s%s" % (s, hh, mm)]
    if hh[0] == "0":
        out += ["UTC%s%s:%s" % (s, hh[1], mm), "GMT%s%s:%s" % (s, hh[1], mm)]
    if mm == "00":
        out += ["UTC%s%d" % (s, int(hh)), "GMT%s%d" % (s, int(hh)), "UTC%s%s" % (s, hh)]
    return out


def _strip_accents(s):
    import unicodedata
    return "".join(c for c in unicodedata.normalize("NFKD", s) if unicodedata.category(c) != "Mn")


BODIES = {
    "iso_time": (["2014-03-09 ", ("H", 2), ":", ("M", 2)], (2014, 3, 9)),
    "iso_full": ([("Y", 4), "-", ("m", 2), "-", ("d", 2), " ", ("H", 2), ":", ("M", 2)], None),
    "long_time": (["March 9, 2014 ", ("H", 2), ":", ("M", 2), ":", ("S", 2)], (2014, 3, 9)),
    "long_full": ([("d", 2), " March ", ("Y", 4), " ", ("H", 2), ":", ("M", 2), ":", ("S", 2)], None),
}


def h_tz(body, tz_text, off, paren=False, languages=("en",)):
    parts, fixed = BODIES[body]
    suffix = " (%s)" % tz_text if paren else " " + tz_text
    w = {p[0] for p in parts if not isinstance(p, str)}

    def fn():
        v = {}
        if fixed:
            v["Y"], v["m"], v["d"] = fixed
        else:
            v["Y"] = C.field("Y", 1, 9999)
            v["m"] = C.field("m", 1, 12) if "m" in w else 3
            v["d"] = C.field("d", 1, 31)
            core.assume(mkbool(_zi(v["d"]) <= dates.z_dim(_zi(v["Y"]), _zi(v["m"]))))
        for n in "HMS":
            v[n] = C.field(n, *C._RANGES[n]) if n in w else 0
        s = tmpl(parts + [suffix], v)
        dd = C.api(s, languages=list(languages) if languages else None)
        wit = dict(v)
        do = dd.date_obj
        if do is None:
            return C.outcome(False, wit, "none")
        if do.tzinfo is None:
            return C.outcome(False, wit, "naive")
        got = do.tzinfo.utcoffset(None)
        # the zone object attached to the result must survive pickling and copying (per table entry: a ground fact)
        import copy
        import pickle
        try:
            rt = [pickle.loads(pickle.dumps(do.tzinfo)), copy.copy(do.tzinfo), copy.deepcopy(do.tzinfo)]
            survives = all(t.utcoffset(None) == got and t.tzname(None) == do.tzinfo.tzname(None) for t in rt)
        except Exception:
            survives = False
        ok = z3.And(C.dt_is(do, v["Y"], v["m"], v["d"], v["H"], v["M"], v["S"], 0), bool(got == _dt.timedelta(seconds=off)),
                    dd.period == "day", bool(survives))
        return C.outcome(ok, wit, "aware")
    return fn


def tasks(tier, seed):
    out = []
    quick = tier == "quick"
    table, nrows = load_table()
    open_cz = any(k["id"] == FID_CZ and k.get("status", "open") == "open" for k in runner.load_known())

    def add(name, args, budget=120):
        out.append({"name": name, "fn": "h_tz", "args": args, "budget_s": budget if quick else budget * 6, "max_paths": 5000})
    offsets = [(n, o) for n, o in table if spellings(n, o)]
    abbrs = [(n, o) for n, o in table if not spellings(n, o)]
    if open_cz:
        abbrs = [(n, o) for n, o in abbrs if _strip_accents(n) == n]
    for i, (n, o) in enumerate(offsets):
        sp = spellings(n, o)
        if quick:
            # every compact digit-run spelling (where one offset's digits can be read as another's) + one rotated other
            compact = [t for t in sp if re.fullmatch(r"(?:UTC|GMT)?[+-]\d{4}", t)]
            rest = [t for t in sp if t not in compact]
            pick = compact + ([rest[(seed + i) % len(rest)]] if rest else [])
        else:
            pick = sp
        for t in pick:
            add("offset:%s" % t, {"body": "iso_time", "tz_text": t, "off": o})
    # fully symbolic bodies: where digits of the body could be swallowed by an offset pattern
    full = [offsets[(seed * 5 + j * 9) % len(offsets)] for j in range(1 if quick else 12)]
    for j, (n, o) in enumerate(full):
        sp = spellings(n, o)
        add("full:iso:%s" % sp[(3 + j) % len(sp)], {"body": "iso_full", "tz_text": sp[(3 + j) % len(sp)], "off": o}, 300)
        if not quick or j == 0:
            add("full:long:%s" % sp[j % len(sp)], {"body": "long_full", "tz_text": sp[j % len(sp)], "off": o}, 300)
    step = 8 if quick else 1
    # quick tier: besides the rotation, three names of every length (patterns and pre-filters are length-sensitive)
    by_len = {}
    for n, o in abbrs:
        by_len.setdefault(len(n), []).append(n)
    forced = {g[(seed * 3 + 5 * j) % len(g)] for g in by_len.values() for j in range(min(3, len(g)))} if quick else set()
    for i, (n, o) in enumerate(abbrs):
        if (i + seed) % step and n == n.upper() and n.isascii() and n not in forced:
            continue   # quick tier: a seed-rotated eighth, plus every name that is not plain upper-case ASCII
        add("abbr:%s" % n, {"body": "iso_time", "tz_text": n, "off": o})
        if not quick or i % 3 == 0:
            add("abbr-lower:%s" % n.lower(), {"body": "iso_time", "tz_text": n.lower(), "off": o})
        if not quick or i % 5 == 0:
            add("abbr-paren:%s" % n, {"body": "long_time", "tz_text": n, "off": o, "paren": True})
    for j in range(2 if quick else 8):
        n, o = abbrs[(seed * 7 + j * 31) % len(abbrs)]
        add("auto:abbr:%s" % n, {"body": "iso_time", "tz_text": n, "off": o, "languages": None}, 300)
    return out


def build_spec(task, viol):
    w = C.ints(viol["witness"])
    a = task["args"]
    parts, fixed = BODIES[a["body"]]
    vals = dict(w)
    if fixed:
        vals["Y"], vals["m"], vals["d"] = fixed
    vals.setdefault("m", 3)
    suffix = " (%s)" % a["tz_text"] if a.get("paren") else " " + a["tz_text"]
    return {"task": task["name"], "witness": w, "clock": C.clock_from_witness(w),
            "call": {"string": render(parts + [suffix], vals), "languages": a.get("languages", ["en"]), "settings": {}},
            "expect": [vals["Y"], vals["m"], vals["d"], vals.get("H", 0), vals.get("M", 0), vals.get("S", 0)],
            "off": a["off"], "tz_text": a["tz_text"]}


def native_check(spec):
    from symx import native
    res = native.call_api(spec["call"], spec.get("clock"))
    exp = _dt.datetime(*spec["expect"])
    desc = "parse(%r, languages=%r)" % (spec["call"]["string"], spec["call"].get("languages"))
    if "exception" in res:
        return {"violates": True, "detail": "%s raised %s" % (desc, res["exception"])}
    got = res["date_obj"]
    bad = (got is None or got.tzinfo is None or got.utcoffset() != _dt.timedelta(seconds=spec["off"])
           or got.replace(tzinfo=None) != exp or res["period"] != "day")
    if not bad:
        import copy
        import pickle
        try:
            for g2 in (pickle.loads(pickle.dumps(got)), copy.copy(got), copy.deepcopy(got)):
                if g2 != got or g2.utcoffset() != got.utcoffset() or g2.replace(tzinfo=None) != exp:
                    bad = True
        except Exception:
            bad = True
    return {"violates": bad, "detail": "%s -> %r; expected %s with UTC offset %+d s" % (desc, got, exp, spec["off"])}


def classify_known(spec, verdict, known):
    if FID_CZ in {k["id"] for k in known} and _strip_accents(spec.get("tz_text", "")) != spec.get("tz_text", ""):
        return FID_CZ
    return None
