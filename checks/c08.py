"""C08 — missing day/month are completed exactly as configured; the period is truthful (symx, public API + kernels)."""
import calendar as _cal
import datetime as _dt

import z3

from symx import core, dates
from symx.core import SInt, SEnum, _zi, mkbool
from symx.tmpl import tmpl, render
from . import common as C

ID = "C08"
ENCODED = ["dateparser.date.DateDataParser.get_date_data", "dateparser.date.parse_with_formats",
           "dateparser.parser._parser.parse/_results/_get_datetime_obj/_correct_for_time_frame/_correct_for_month/"
           "_correct_for_day/_get_period", "dateparser.utils.set_correct_day_from_settings",
           "dateparser.utils.set_correct_month_from_settings", "dateparser.utils.get_last_day_of_month",
           "dateparser.utils.strptime.strptime", "_strptime._strptime (stdlib clone)",
           "dateparser.languages.locale.Locale.translate/is_applicable"]
ASSUMPTIONS = [
    "bounded claim: all years 1-9999 (4-digit zero-padded), all reference instants 0001-9999 incl. days 29-31 and Feb 29, "
    "all 27 PREFER_DAY_OF_MONTH x PREFER_MONTH_OF_YEAR x PREFER_DATES_FROM combinations (symbolic choices), for the "
    "listed English templates and strptime formats only",
    "absolute parser: the reference is RELATIVE_BASE (symbolic); custom-format parser: the reference is the system "
    "clock (clock stub = one arbitrary instant per API call), as the property states",
    "date theory (symx.dates) stands for CPython datetime/calendar; symbolic regex stands for re/regex on templates",
    "kernel tasks call the real utils functions with a settings stub object carrying the symbolic preference; the same "
    "three kernels are cross-checked by a second engine (crosshair-tool on ch/c08_kernels.py, PEP-316 contracts); its "
    "'Not confirmed' answers are inconclusive and never fail the check",
]


def _pref_day(pref, ref_day, y, m):
    dim = dates.z_dim(_zi(y), _zi(m))
    rd = _zi(ref_day)
    return z3.If(pref.z == 1, 1, z3.If(pref.z == 2, dim, z3.If(rd <= dim, rd, dim)))


def _pref_month(pref, ref_month):
    return z3.If(pref.z == 1, 1, z3.If(pref.z == 2, 12, _zi(ref_month)))


# ------------------------------------------------------------------------------------------------ API harnesses
TEMPLATES = {}
for _i in range(12):
    TEMPLATES["MonthY_%02d" % (_i + 1)] = ([C.EN_MONTHS[_i].capitalize() + " ", ("Y", 4)], "month", _i + 1)
    TEMPLATES["MonY_%02d" % (_i + 1)] = ([C.EN_MON[_i].capitalize() + " ", ("Y", 4)], "month", _i + 1)
TEMPLATES["Y"] = ([("Y", 4)], "year", None)
TEMPLATES["m/Y"] = ([("m", 2), "/", ("Y", 4)], "month", None)
TEMPLATES["dMonthY"] = ([("d", 2), " March ", ("Y", 4)], "day", 3)
TEMPLATES["Y-m-d"] = ([("Y", 4), "-", ("m", 2), "-", ("d", 2)], "day", None)
TEMPLATES["dMonthY_hm"] = ([("d", 2), " July ", ("Y", 4), " ", ("H", 2), ":", ("M", 2)], "day", 7)

FORMATS = {
    "%B %Y": ([" ", ("Y", 4)], "month"),     # month name prepended per task
    "%Y": ([("Y", 4)], "year"),
    "%m/%Y": ([("m", 2), "/", ("Y", 4)], "month"),
    "%Y-%m": ([("Y", 4), "-", ("m", 2)], "month"),
    "%d/%m/%Y": ([("d", 2), "/", ("m", 2), "/", ("Y", 4)], "day"),
    "%Y %H:%M": ([("Y", 4), " ", ("H", 2), ":", ("M", 2)], "year"),
}


def h_abs(name, time_as_period=False):
    parts, kind, month = TEMPLATES[name]
    w = {p[0]: p[1] for p in parts if not isinstance(p, str)}

    def fn():
        b = C.sym_base("b")
        st, wit = C.pref_settings()
        st["RELATIVE_BASE"] = b
        if time_as_period:
            st["RETURN_TIME_AS_PERIOD"] = True
        v = {"Y": C.field("Y", 1, 9999)}
        v["m"] = month if month is not None else (C.field("m", 1, 12) if "m" in w else None)
        if "d" in w:
            v["d"] = C.field("d", 1, 31)
            core.assume(mkbool(_zi(v["d"]) <= dates.z_dim(_zi(v["Y"]), _zi(v["m"]))))
        for n in "HM":
            if n in w:
                v[n] = C.field(n, *C._RANGES[n])
        s = tmpl(parts, v)
        dd = C.api(s, languages=["en"], settings=st)
        wit.update({k: x for k, x in v.items() if x is not None})
        wit.update(C.base_witness(b))
        do = dd.date_obj
        if do is None:
            return C.outcome(False, wit, "none")
        pd, pm = st["PREFER_DAY_OF_MONTH"], st["PREFER_MONTH_OF_YEAR"]
        if kind == "year":
            em = _pref_month(pm, b.month)
            ed = _pref_day(pd, b.day, v["Y"], em)
            eper = "year"
        elif kind == "month":
            em = _zi(v["m"])
            ed = _pref_day(pd, b.day, v["Y"], em)
            eper = "month"
        else:
            em, ed = _zi(v["m"]), _zi(v["d"])
            eper = "time" if (time_as_period and "H" in w) else "day"
        ok = z3.And(_zi(do.year) == _zi(v["Y"]), _zi(do.month) == em, _zi(do.day) == ed,
                    _zi(do.hour) == _zi(v.get("H", 0)), _zi(do.minute) == _zi(v.get("M", 0)), _zi(do.second) == 0,
                    _zi(do.microsecond) == 0, do.tzinfo is None, dd.period == eper)
        return C.outcome(ok, wit, "parsed")
    return fn


LEADS = {"%d/%m/%Y": ["%Y", "%m/%Y"], "%m/%Y": ["%Y", "%d/%m/%Y"], "%Y": ["%m/%Y", "%d/%m/%Y"],
         "%Y %H:%M": ["%Y", "%d/%m/%Y", "%m/%Y"], "%Y-%m": ["%d/%m/%Y", "%Y"]}


def h_fmt(fmt, month=None, lead=False):
    """lead: the matching format comes last in a list whose earlier formats (coarser and finer) do not match"""
    parts, kind = FORMATS[fmt]
    if fmt == "%B %Y":
        parts = [C.EN_MONTHS[month - 1].capitalize()] + parts
    w = {p[0]: p[1] for p in parts if not isinstance(p, str)}

    def fn():
        b = C.sym_base("b")      # must be irrelevant: the custom-format parser consults the system clock
        st, wit = C.pref_settings()
        st["RELATIVE_BASE"] = b
        v = {"Y": C.field("Y", 1, 9999)}
        v["m"] = month if month is not None else (C.field("m", 1, 12) if "m" in w else None)
        if "d" in w:
            v["d"] = C.field("d", 1, 31)
            core.assume(mkbool(_zi(v["d"]) <= dates.z_dim(_zi(v["Y"]), _zi(v["m"]))))
        for n in "HM":
            if n in w:
                v[n] = C.field(n, *C._RANGES[n])
        s = tmpl(parts, v)
        dd = C.api(s, languages=["en"], settings=st, date_formats=(LEADS[fmt] if lead else []) + [fmt])
        wit.update({k: x for k, x in v.items() if x is not None})
        wit.update(C.base_witness(b))
        do = dd.date_obj
        if do is None:
            return C.outcome(False, wit, "none")
        pd, pm = st["PREFER_DAY_OF_MONTH"], st["PREFER_MONTH_OF_YEAR"]
        clk = dates.SDateTime._clock()
        if kind == "year":
            em = _pref_month(pm, clk.month)
            ed = _pref_day(pd, clk.day, v["Y"], em)
        elif kind == "month":
            em = _zi(v["m"])
            ed = _pref_day(pd, clk.day, v["Y"], em)
        else:
            em, ed = _zi(v["m"]), _zi(v["d"])
        ok = z3.And(_zi(do.year) == _zi(v["Y"]), _zi(do.month) == em, _zi(do.day) == ed,
                    _zi(do.hour) == _zi(v.get("H", 0)), _zi(do.minute) == _zi(v.get("M", 0)), _zi(do.second) == 0,
                    do.tzinfo is None, dd.period == kind)
        return C.outcome(ok, wit, "parsed")
    return fn


# ------------------------------------------------------------------------------------------------ kernels
class _St:
    pass


def h_kernel(which):
    def fn():
        n = C.ns()
        d = C.sym_base("x")
        cur = C.field("cur", 1, 31 if which == "day" else 12)
        wit = dict(C.base_witness(d, "x"), cur=cur)
        st = _St()
        if which == "day":
            p = SEnum("PREFER_DAY_OF_MONTH", C.PREFS["PREFER_DAY_OF_MONTH"])
            p.constrain()
            st.PREFER_DAY_OF_MONTH = p
            wit["PREFER_DAY_OF_MONTH"] = p.z
            r = n.U.set_correct_day_from_settings(d, st, current_day=cur)
            ok = z3.And(_zi(r.year) == _zi(d.year), _zi(r.month) == _zi(d.month),
                        _zi(r.day) == _pref_day(p, cur, d.year, d.month), _zi(r.hour) == _zi(d.hour),
                        _zi(r.minute) == _zi(d.minute), _zi(r.second) == _zi(d.second),
                        _zi(r.microsecond) == _zi(d.microsecond))
        elif which == "month":
            p = SEnum("PREFER_MONTH_OF_YEAR", C.PREFS["PREFER_MONTH_OF_YEAR"])
            p.constrain()
            st.PREFER_MONTH_OF_YEAR = p
            wit["PREFER_MONTH_OF_YEAR"] = p.z
            r = n.U.set_correct_month_from_settings(d, st, current_month=cur)
            want = _pref_month(p, cur)
            # when the day does not exist in the wanted month the documented fallback is December
            fits = _zi(d.day) <= dates.z_dim(_zi(d.year), want)
            ok = z3.And(_zi(r.year) == _zi(d.year), _zi(r.month) == z3.If(fits, want, 12), _zi(r.day) == _zi(d.day),
                        _zi(r.hour) == _zi(d.hour))
        else:
            y, m = C.field("y", 1, 9999), C.field("m", 1, 12)
            wit = {"y": y, "m": m}
            r = n.U.get_last_day_of_month(y, m)
            ok = _zi(r) == dates.z_dim(_zi(y), _zi(m))
        return C.outcome(ok, wit, "kernel")
    return fn


# ------------------------------------------------------------------------------------------------ task lists
def tasks(tier, seed):
    out = []
    quick = tier == "quick"

    def add(name, fn, args, budget=300):
        out.append({"name": name, "fn": fn, "args": args, "budget_s": budget if quick else budget * 4, "max_paths": 20000})
    for k in ("day", "month", "last"):
        add("kernel:" + k, "h_kernel", {"which": k}, 120)
    months = [(seed % 12) + 1, ((seed + 1) % 12) + 1] if quick else range(1, 13)
    # February is always included: leap years are where the last-day rule bites
    for m in sorted(set(list(months) + [2])):
        add("abs:MonthY_%02d" % m, "h_abs", {"name": "MonthY_%02d" % m})
        if not quick or m == 2:
            add("abs:MonY_%02d" % m, "h_abs", {"name": "MonY_%02d" % m})
    for nme in ("Y", "m/Y", "dMonthY", "Y-m-d"):
        add("abs:" + nme, "h_abs", {"name": nme})
    add("abs:dMonthY_hm", "h_abs", {"name": "dMonthY_hm"})
    add("abs:dMonthY_hm:time_as_period", "h_abs", {"name": "dMonthY_hm", "time_as_period": True})
    for f in ("%Y", "%m/%Y", "%Y-%m", "%d/%m/%Y", "%Y %H:%M"):
        add("fmt:" + f, "h_fmt", {"fmt": f})
    for m in sorted(set(list(months) + [2])):
        add("fmt:%%B %%Y:%02d" % m, "h_fmt", {"fmt": "%B %Y", "month": m})
    for f in LEADS:
        add("fmtlist:" + f, "h_fmt", {"fmt": f, "lead": True})
    return out


# ------------------------------------------------------------------------------------------------ replay side
def _exp_day(pref, ref_day, y, m):
    dim = _cal.monthrange(y, m)[1]
    return {"first": 1, "last": dim, "current": min(ref_day, dim)}[pref]


def build_spec(task, viol):
    w = C.ints(viol["witness"])
    a = task["args"]
    spec = {"task": task["name"], "witness": w, "clock": C.clock_from_witness(w), "fn": task["fn"], "args": a}
    if task["fn"] == "h_kernel":
        return spec
    if task["fn"] == "h_abs":
        parts, kind, month = TEMPLATES[a["name"]]
        fmtl = None
    else:
        parts, kind = FORMATS[a["fmt"]]
        month = a.get("month")
        if a["fmt"] == "%B %Y":
            parts = [C.EN_MONTHS[month - 1].capitalize()] + parts
        fmtl = (LEADS[a["fmt"]] if a.get("lead") else []) + [a["fmt"]]
    vals = dict(w)
    if month is not None:
        vals["m"] = month
    st = C.spec_settings({"RETURN_TIME_AS_PERIOD": True} if a.get("time_as_period") else {}, w)
    spec["call"] = {"string": render(parts, vals), "languages": ["en"], "settings": st, "date_formats": fmtl}
    spec["kind"], spec["vals"] = kind, {k: vals[k] for k in ("Y", "m", "d", "H", "M") if k in vals}
    return spec


def native_check(spec):
    from symx import native
    if spec["fn"] == "h_kernel":
        return _native_kernel(spec)
    res = native.call_api(spec["call"], spec.get("clock"))
    if "exception" in res:
        return {"violates": True, "detail": "parse(%r) raised %s" % (spec["call"]["string"], res["exception"])}
    st, v, kind = spec["call"]["settings"], spec["vals"], spec["kind"]
    ref = st["RELATIVE_BASE"] if spec["fn"] == "h_abs" else spec["clock"]
    if ref is None:
        ref = [2000, 1, 1, 0, 0, 0, 0]   # reference never consulted on the path
    pd, pm = st.get("PREFER_DAY_OF_MONTH", "current"), st.get("PREFER_MONTH_OF_YEAR", "current")
    y = v["Y"]
    if kind == "year":
        m = {"first": 1, "last": 12, "current": ref[1]}[pm]
        d = _exp_day(pd, ref[2], y, m)
        per = "year"
    elif kind == "month":
        m = v["m"]
        d = _exp_day(pd, ref[2], y, m)
        per = "month"
    else:
        m, d = v["m"], v["d"]
        per = "time" if (st.get("RETURN_TIME_AS_PERIOD") and "H" in v) else "day"
    if spec["fn"] == "h_fmt":
        per = kind
    exp = _dt.datetime(y, m, d, v.get("H", 0), v.get("M", 0))
    got = res["date_obj"]
    bad = got is None or got.tzinfo is not None or _dt.datetime(*got.timetuple()[:6], got.microsecond) != exp \
        or res["period"] != per
    return {"violates": bad, "detail": "parse(%r, formats=%r, settings=%r, clock=%r) -> %r period=%r; expected %r period=%r"
            % (spec["call"]["string"], spec["call"].get("date_formats"), st, spec.get("clock"), got, res["period"], exp, per)}


def _native_kernel(spec):
    from symx import native
    native.import_repo()
    import dateparser.utils as U
    w, which = spec["witness"], spec["args"]["which"]

    class S:
        pass
    try:
        if which == "last":
            r = U.get_last_day_of_month(w["y"], w["m"])
            exp = _cal.monthrange(w["y"], w["m"])[1]
            return {"violates": r != exp, "detail": "get_last_day_of_month(%d,%d) -> %r, expected %r" % (w["y"], w["m"], r, exp)}
        d = _dt.datetime(*[w["x_" + f] for f in dates._FIELDS])
        if which == "day":
            S.PREFER_DAY_OF_MONTH = C.PREFS["PREFER_DAY_OF_MONTH"][w["PREFER_DAY_OF_MONTH"]]
            r = U.set_correct_day_from_settings(d, S, current_day=w["cur"])
            exp = d.replace(day=_exp_day(S.PREFER_DAY_OF_MONTH, w["cur"], d.year, d.month))
        else:
            S.PREFER_MONTH_OF_YEAR = C.PREFS["PREFER_MONTH_OF_YEAR"][w["PREFER_MONTH_OF_YEAR"]]
            r = U.set_correct_month_from_settings(d, S, current_month=w["cur"])
            want = {"first": 1, "last": 12, "current": w["cur"]}[S.PREFER_MONTH_OF_YEAR]
            exp = d.replace(month=want if d.day <= _cal.monthrange(d.year, want)[1] else 12)
        return {"violates": r != exp, "detail": "%s kernel on %r cur=%r -> %r, expected %r" % (which, d, w["cur"], r, exp)}
    except Exception as e:  # noqa
        return {"violates": True, "detail": "%s kernel raised %s: %s" % (which, type(e).__name__, e)}


def classify_known(spec, verdict, known):
    return None


# ------------------------------------------------------------------------------------------------ second engine
def extra_phase(tier, seed, V):
    """Cross-check of the kernel tasks with a second engine: crosshair-tool on ch/c08_kernels.py (the same real
    functions, PEP-316 contracts).  'Confirmed over all paths' is recorded; 'Not confirmed' is inconclusive (never a
    failure); a counterexample is replayed natively before it is reported."""
    import os
    import re
    import subprocess
    import time
    from symx import runner
    exe = os.path.join(runner.VERIF, ".venv", "bin", "crosshair")
    src = os.path.join(runner.VERIF, "ch", "c08_kernels.py")
    if not os.path.exists(exe):
        return {"crosshair": "not installed"}
    lines = open(src).read().splitlines()
    funcs = {}
    for i, ln in enumerate(lines, 1):
        m = re.match(r"def (last_day|correct_day|correct_month)\(", ln)
        if m:
            funcs[m.group(1)] = i
    t0 = time.time()
    procs = {}
    env = dict(os.environ, VERIF_REPO=runner.REPO)
    tmo = 40 if tier == "quick" else 240
    for name, line in funcs.items():
        procs[name] = subprocess.Popen([exe, "check", "--report_all", "--per_condition_timeout", str(tmo), "%s:%d" % (src, line + 1)],
                                       stdout=subprocess.PIPE, stderr=subprocess.STDOUT, text=True, env=env, cwd=runner.VERIF)
    out = {}
    for name, p in procs.items():
        try:
            txt = p.communicate(timeout=tmo * 3 + 60)[0]
        except subprocess.TimeoutExpired:
            p.kill()
            txt = "timeout"
        if "Confirmed over all paths" in txt:
            out[name] = "confirmed over all paths"
        elif "error:" in txt:
            m = re.search(r"when calling \w+\((.*?)\) \(which", txt)
            args = dict(re.findall(r"(\w+) ?= ?(-?\d+)", m.group(1))) if m else {}
            out[name] = "counterexample %s" % args
            try:
                a = {k: int(v) for k, v in args.items()}
                if name == "last_day":
                    spec = {"fn": "h_kernel", "args": {"which": "last"}, "witness": {"y": a["y"], "m": a["m"]}}
                else:
                    w = {"x_year": a["y"], "x_month": a["m"], "x_day": a["d"], "x_hour": 0, "x_minute": 0, "x_second": 0,
                         "x_microsecond": 0, "cur": a["cur"]}
                    w["PREFER_DAY_OF_MONTH" if name == "correct_day" else "PREFER_MONTH_OF_YEAR"] = a["pref"]
                    spec = {"fn": "h_kernel", "args": {"which": "day" if name == "correct_day" else "month"}, "witness": w}
                ok, verdict, path = runner.replay_native(ID, spec, "%s_crosshair_%s" % (tier, name))
                if ok is True:
                    V.violations.append((path, "[crosshair:%s] %s" % (name, verdict.get("detail", ""))))
                    out[name] += " (reproduced natively)"
                else:
                    out[name] += " (did not reproduce natively: ignored)"
            except Exception as e:  # noqa
                out[name] += " (could not be replayed: %s)" % e
        else:
            out[name] = "not confirmed within %d s (inconclusive)" % tmo
    return {"second_engine_crosshair": {"tool": "crosshair-tool 0.0.110", "harness": "ch/c08_kernels.py", "results": out,
                                        "wall_s": round(time.time() - t0, 1)}}
