"""C03 — results depend only on the call's arguments, never on call history.

Histories are not enumerated blindly; the shared state a call can meet is made symbolic and ONE step is taken from it
(the allocator pattern), plus short API-level histories with symbolic date digits around the mechanisms that carry
state between calls (dictionary caches, the shared DATE_ORDER field, the settings registry)."""
import datetime as _dt
import os

import z3

from symx import core, dates
from symx.core import _zi, mkbool, SInt
from symx.tmpl import tmpl, render
from . import common as C

ID = "C03"
ENCODED = ["dateparser.languages.dictionary.Dictionary._add_to_cache and the five cache accessors "
           "(_get_sorted_words_from_cache, _get_split_regex_cache, _get_sorted_relative_strings_from_cache, "
           "_get_split_relative_regex_cache, _get_match_relative_regex_cache)",
           "dateparser.date._DateLocaleParser._try_parser (date_parser.parse replaced by a stub with a symbolic outcome)",
           "dateparser.conf.apply_settings / Settings.replace / Settings.get_key / registry",
           "dateparser.date.DateDataParser.get_date_data (short API histories with symbolic digits)"]
ASSUMPTIONS = [
    "cache step: the shared cache is an arbitrary ordered dict of <= 4 settings keys x <= 2 locale names that satisfies "
    "the representation invariant the accessors themselves establish (key -> {locale -> value}); the caller's own key is "
    "absent or at an arbitrary position; CACHE_SIZE_LIMIT in 0..5; one accessor call is taken from that state. The "
    "invariant is re-established by the step, so histories of any length are covered for this component",
    "DATE_ORDER restore: the absolute parser's outcome is an arbitrary member of {return, ValueError, OverflowError, "
    "TypeError, KeyError, IndexError, AssertionError, AttributeError}",
    "settings registry: ordered pairs of settings dicts from a finite pool (incl. dicts that spell out default values) and "
    "an arbitrary earlier mutation of one field of the registered instance",
    "live-object histories: a DateDataParser (or configuration) created first, one other call (search_dates with equal "
    "settings; a parser with another RELATIVE_BASE / permuted DEFAULT_LANGUAGES / equal effective values / a value of "
    "another type with the same text; a laxer call with the same format; SKIP_TOKENS with the same concatenation; 1100 "
    "distinct configurations), then the first object is used with symbolic digits, reference times and clock",
    "hash seeds: in the hash-seed tasks the iteration order of every set of strings is a decision of the path (insertion "
    "order or its reverse - two of the n! orders); witnesses are replayed in fresh processes under PYTHONHASHSEED 0..11",
    "API histories: two/three calls with symbolic digits around failing parses, differing CACHE_SIZE_LIMIT and "
    "PREFER_LOCALE_DATE_ORDER; whole-API histories beyond these shapes, hash-seed independence and 'caller's dict/list "
    "unmodified' are outside",
]

ACCESSORS = ["_get_sorted_words_from_cache", "_get_split_regex_cache", "_get_sorted_relative_strings_from_cache",
             "_get_split_relative_regex_cache", "_get_match_relative_regex_cache"]
_CACHE_OF = {"_get_sorted_words_from_cache": "_sorted_words_cache", "_get_split_regex_cache": "_split_regex_cache",
             "_get_sorted_relative_strings_from_cache": "_sorted_relative_strings_cache",
             "_get_split_relative_regex_cache": "_split_relative_regex_cache",
             "_get_match_relative_regex_cache": "_match_relative_regex_cache"}
INFO = {"name": "xx", "skip": ["of"], "january": ["janx"], "monday": ["monx"], "ago": ["ago"], "in": ["in"],
        "relative-type": {"1 day ago": ["yesterx"]}, "relative-type-regex": {r"\1 day ago": [r"(\d+) dayx ago"]}}


class _St:
    SKIP_TOKENS = []


def h_cache(accessor):
    def fn():
        n = C.ns()
        D = n.LD.Dictionary
        # ---- symbolic pre-state
        nk = core.concretize(C.field("nkeys", 0, 4))                 # other keys in the cache
        own_pos = core.concretize(C.field("own_pos", -1, 4))         # -1: own key absent
        core.assume(own_pos <= nk)
        limit = core.concretize(C.field("limit", 0, 5))
        own_has_me = core.branch(z3.Bool("own_has_my_locale"))
        own_has_other = core.branch(z3.Bool("own_has_other_locale"))
        if own_pos < 0:
            core.assume(not own_has_me and not own_has_other)
        elif not (own_has_me or own_has_other):
            raise core.Abort()                                       # a key is only present with at least one locale
        keys = ["k%d" % i for i in range(nk)]
        state = {}
        for i, k in enumerate(keys):
            if i == own_pos:
                state["OWN"] = None
            state[k] = {"xx": ("other", k, "xx"), "yy": ("other", k, "yy")}
        if own_pos >= nk:
            state["OWN"] = None
        if own_pos >= 0:
            state["OWN"] = {}
            if own_has_other:
                state["OWN"]["yy"] = ("own", "yy")
        st = _St()
        st.registry_key = "OWN"
        st.CACHE_SIZE_LIMIT = limit
        d = D(INFO, settings=st)
        cname = _CACHE_OF[accessor]
        saved = {c: getattr(D, c) for c in set(_CACHE_OF.values())}
        try:
            for c in saved:
                setattr(D, c, {})
            # a faithful pre-existing own entry: computed by the accessor itself in a clean cache
            fresh = getattr(d, accessor)()
            for c in saved:
                setattr(D, c, {})
            if own_pos >= 0 and own_has_me:
                state["OWN"]["xx"] = fresh
            pre = {k: dict(v) for k, v in state.items()}
            setattr(D, cname, state)
            wit = {"nkeys": nk, "own_pos": own_pos, "limit": limit, "own_has_me": own_has_me, "own_has_other": own_has_other}
            try:
                got = getattr(d, accessor)()
            except KeyError as e:
                return C.outcome(False, wit, "raised:KeyError", {"exception": "KeyError: %s" % e})
            post = getattr(D, cname)
            same_value = (got == fresh) if not hasattr(got, "pattern") else (got.pattern == fresh.pattern)
            untouched = all(post[k] == pre[k] for k in post if k != "OWN")
            only_evicted = set(post) <= set(pre) | {"OWN"}
            ok = same_value and untouched and only_evicted and "OWN" in post and "xx" in post["OWN"]
            return C.outcome(bool(ok), wit, "step")
        finally:
            for c, v in saved.items():
                setattr(D, c, v)
    return fn


EXC = [None, ValueError, OverflowError, TypeError, KeyError, IndexError, AssertionError, AttributeError]


def h_restore(lang):
    def fn():
        n = C.ns()
        which = core.concretize(C.field("outcome", 0, len(EXC) - 1))
        prefer = core.branch(z3.Bool("prefer_locale_order"))
        explicit = core.branch(z3.Bool("explicit_date_order"))
        mod = {"PREFER_LOCALE_DATE_ORDER": prefer}
        if explicit:
            mod["DATE_ORDER"] = "YDM"
        settings = n.CONF.settings.replace(mod_settings=mod, **mod)
        entry = settings.DATE_ORDER
        loader = n.LO.LocaleDataLoader()
        locale = list(loader.get_locales(languages=[lang]))[0]
        seen = {}

        class _Stub:
            def parse(self, s, parse_method=None, settings=None):
                seen["order_during_parse"] = settings.DATE_ORDER
                if EXC[which] is None:
                    return dates.SDateTime(2015, 1, 2), "day"
                raise EXC[which]("stub")
        real = n.D.date_parser
        n.D.date_parser = _Stub()
        try:
            p = n.D._DateLocaleParser(locale, "01/02/2015", None, settings=settings)
            try:
                p._try_parser(parse_method=n.D._parse_absolute)
            except Exception:
                pass
        finally:
            n.D.date_parser = real
        own = locale.info.get("date_order", entry)
        want_during = own if (prefer and not explicit) else entry
        ok = settings.DATE_ORDER == entry and seen.get("order_during_parse") == want_during
        # leave the shared instance clean for the next path whatever happened
        settings.DATE_ORDER = entry
        return C.outcome(bool(ok), {"outcome": which, "prefer_locale_order": prefer, "explicit_date_order": explicit}, "restore")
    return fn


POOL = [
    {}, {"DATE_ORDER": "MDY"}, {"PREFER_DATES_FROM": "current_period"}, {"DATE_ORDER": "DMY"},
    {"PREFER_LOCALE_DATE_ORDER": True}, {"PREFER_LOCALE_DATE_ORDER": False}, {"NORMALIZE": True}, {"NORMALIZE": False},
    {"DATE_ORDER": "MDY", "NORMALIZE": True}, {"SKIP_TOKENS": ["t"]}, {"SKIP_TOKENS": ["t", "x"]}, {"CACHE_SIZE_LIMIT": 1000},
    {"CACHE_SIZE_LIMIT": 1}, {"STRICT_PARSING": False}, {"TIMEZONE": "local"}, {"TIMEZONE": "UTC"},
    # configurations whose textual renderings are close: permuted lists, same concatenation, references that differ
    {"DEFAULT_LANGUAGES": ["pt", "es"]}, {"DEFAULT_LANGUAGES": ["es", "pt"]}, {"SKIP_TOKENS": ["de", "la"]},
    {"SKIP_TOKENS": ["dela"]}, {"RELATIVE_BASE": _dt.datetime(2021, 5, 31)}, {"RELATIVE_BASE": _dt.datetime(2023, 1, 10)},
    {"PARSERS": ["timestamp", "absolute-time"]}, {"PARSERS": ["absolute-time", "timestamp"]},
]


def h_registry():
    def fn():
        n = C.ns()
        i = core.concretize(C.field("i", 0, len(POOL) - 1))
        j = core.concretize(C.field("j", 0, len(POOL) - 1))
        # (earlier versions also overwrote a field of the registered instance by hand and demanded that the next
        # construction heals it; that is more than the property states - every site that writes into a shared instance is
        # now checked to restore it (date-order restore, live-object histories) - and it was dropped: DESIGN.md section 5)
        mutate = 0
        d1, d2 = dict(POOL[i]), dict(POOL[j])
        if not d1 and mutate:
            raise core.Abort()    # the default instance is not rebuilt per call; no call may leave it mutated (see restore)
        defaults = dict(n.CONF.Settings._get_settings_from_pyfile())
        got = {}

        @n.CONF.apply_settings
        def probe(tag, settings=None):
            got[tag] = settings
            return settings
        probe("a", settings=d1 or None)
        s1 = got["a"]
        if mutate == 1:
            s1.DATE_ORDER = "YDM"          # an earlier call left a field overwritten
        elif mutate == 2:
            s1.NORMALIZE = not s1.NORMALIZE
        elif mutate == 3:
            s1._mod_settings = {"junk": 1}
        probe("b", settings=d2 or None)
        want = dict(defaults)
        want.update(d1)
        ok = True
        if d1 and d1 != d2 and not mutate:
            # a live parser still holds s1: a call with different settings must not have touched it
            ok = all(getattr(s1, k) == v for k, v in want.items()) and dict(s1._mod_settings) == d1
        probe("c", settings=d1 or None)    # the original configuration is used again
        s3 = got["c"]
        ok = ok and all(getattr(s3, k) == v for k, v in want.items())
        if d1:
            ok = ok and dict(s3._mod_settings) == d1
        if mutate:
            # undo for the default instance, which is process-wide
            for k, v in defaults.items():
                setattr(n.CONF.settings, k, v)
            n.CONF.settings._mod_settings = dict()
        return C.outcome(bool(ok), {"i": i, "j": j, "mutate": mutate}, "registry")
    return fn


def h_history(shape):
    """API-level histories with symbolic digits; the LAST call's result is compared with what its arguments alone define"""
    def fn():
        v = C.date_fields(ymin=1000, ymax=9999)
        wit = dict(v)
        if shape == "failed-parse-then-default-order":
            # a failing absolute parse in a DMY locale, then a call that must read MDY
            C.api("32/13/2015", languages=["fr"])       # fails in the absolute parser
            s = tmpl([("m", 2), "/", ("d", 2), "/", ("Y", 4)], v)
            dd = C.api(s, languages=["en"], settings={"PREFER_LOCALE_DATE_ORDER": False})
        elif shape == "failed-parse-then-tl":
            C.api("31-02-2015", languages=["de"])
            s = tmpl([("m", 2), "/", ("d", 2), "/", ("Y", 4)], v)
            dd = C.api(s, languages=["tl"])
        elif shape == "cache-limit-sequence":
            s = tmpl([("m", 2), "/", ("d", 2), "/", ("Y", 4)], v)
            C.api("12 march 2015", languages=["en"], settings={"CACHE_SIZE_LIMIT": 1})
            C.api("12 march 2015", languages=["en"])
            C.api("12 mars 2015", languages=["fr"], settings={"CACHE_SIZE_LIMIT": 1})
            dd = C.api(s, languages=["en"], settings={"CACHE_SIZE_LIMIT": 1})
        elif shape == "custom-settings-then-default":
            C.api("31.12.2015", languages=["en"],
                  settings={"DATE_ORDER": "DMY", "NORMALIZE": False, "SKIP_TOKENS": ["x"], "PREFER_DAY_OF_MONTH": "last"})
            s = tmpl([("m", 2), "/", ("d", 2), "/", ("Y", 4)], v)
            dd = C.api(s, languages=["en"])
        else:
            raise ValueError(shape)
        do = dd.date_obj
        if do is None:
            return C.outcome(False, wit, "none")
        return C.outcome(z3.And(C.dt_is(do, v["Y"], v["m"], v["d"]), dd.period == "day"), wit, "parsed")
    return fn


# ------------------------------------------------------------------------------------------------ live-object histories
# A DateDataParser (or an earlier configuration) is still alive while OTHER calls are made; then it is used (again).
# One sequence description drives both the symbolic run and the native replay.
OLDER = ["search-same-settings", "search-then-new-parser", "same-string-other-skip-tokens", "normalize-off-other-skip-tokens", "construct-other-base", "permuted-defaults", "equal-effective-settings",
         "format-strictness-history", "skip-token-concatenation", "many-settings-then-default", "typed-vs-text-value"]
_SEARCH_TEXT = "It was signed on March 5 2020 and published 2 days later"


def _older_fields(kind):
    """name -> (lo, hi) of the symbolic decimal fields of the probing call"""
    return {"search-same-settings": {"n": (0, 99)}, "search-then-new-parser": {"n": (0, 99)},
            "same-string-other-skip-tokens": {"Y": (1000, 9999), "d": (1, 28)},
            "normalize-off-other-skip-tokens": {"Y": (1000, 9999), "d": (1, 28)}, "construct-other-base": {},
            "permuted-defaults": {"d": (1, 28)}, "equal-effective-settings": {"Y": (1000, 9999), "m": (1, 12), "d": (1, 28)},
            "format-strictness-history": {"Y": (1000, 9999)}, "skip-token-concatenation": {"Y": (1000, 9999), "d": (1, 28)},
            "many-settings-then-default": {"n": (0, 99)}, "typed-vs-text-value": {"Y": (1000, 9999), "m": (1, 12), "d": (1, 28)}}[kind]


def _older_seq(kind, DDP, search, S, base):
    """runs the history; returns the DateData (or exception) of the LAST call.  S(parts) builds a string from the probing
    fields; base(prefix) gives a reference datetime (symbolic or replayed)."""
    if kind == "search-same-settings":
        X = {"TIMEZONE": "UTC"}
        p1 = DDP(languages=["en"], settings=dict(X))
        search(_SEARCH_TEXT, languages=["en"], settings=dict(X))
        return p1.get_date_data(S([("n", 2), " days ago"]))
    if kind == "search-then-new-parser":
        X = {"TIMEZONE": "UTC"}
        search(_SEARCH_TEXT, languages=["en"], settings=dict(X))
        return DDP(languages=["en"], settings=dict(X)).get_date_data(S([("n", 2), " days ago"]))
    if kind == "same-string-other-skip-tokens":
        t = S([("d", 2), " April ", ("Y", 4), " de"])
        DDP(languages=["en"]).get_date_data(t)                                  # 'de' is not a skip token here
        return DDP(languages=["en"], settings={"SKIP_TOKENS": ["de"]}).get_date_data(t)
    if kind == "normalize-off-other-skip-tokens":
        DDP(languages=["en"], settings={"NORMALIZE": False}).get_date_data("12 March 2015")
        return DDP(languages=["en"], settings={"NORMALIZE": False, "SKIP_TOKENS": ["foo"]}).get_date_data(
            S(["foo ", ("d", 2), " April ", ("Y", 4)]))
    if kind == "construct-other-base":
        X = {"PREFER_MONTH_OF_YEAR": "current", "PREFER_DAY_OF_MONTH": "current"}
        p1 = DDP(languages=["en"], settings=dict(X, RELATIVE_BASE=base("b")))
        DDP(languages=["en"], settings=dict(X, RELATIVE_BASE=base("c")))
        return p1.get_date_data("2015")
    if kind == "permuted-defaults":
        p1 = DDP(languages=["ru"], settings={"DEFAULT_LANGUAGES": ["pt", "es"]}, use_given_order=True)
        DDP(languages=["ru"], settings={"DEFAULT_LANGUAGES": ["es", "pt"]}, use_given_order=True)
        return p1.get_date_data(S([("d", 2), " abril 2020"]))
    if kind == "equal-effective-settings":
        p1 = DDP(languages=["fr"], settings={"DATE_ORDER": "MDY"})
        DDP(languages=["en"], settings={"PREFER_LOCALE_DATE_ORDER": True}).get_date_data("01/01/2000")
        return p1.get_date_data(S([("m", 2), "/", ("d", 2), "/", ("Y", 4)]))
    if kind == "format-strictness-history":
        DDP(languages=["en"]).get_date_data(S(["March ", ("Y", 4)]), ["%B %Y"])
        return DDP(languages=["en"], settings={"STRICT_PARSING": True}).get_date_data(S(["March ", ("Y", 4)]), ["%B %Y"])
    if kind == "skip-token-concatenation":
        DDP(languages=["en"], settings={"SKIP_TOKENS": ["dela"]}).get_date_data("24 April 2012")
        return DDP(languages=["en"], settings={"SKIP_TOKENS": ["de", "la"]}).get_date_data(S([("d", 2), " April ", ("Y", 4), " de la"]))
    if kind == "many-settings-then-default":
        for i in range(1100):
            DDP(languages=["en"], settings={"CACHE_SIZE_LIMIT": 2000 + i})
        search(_SEARCH_TEXT, languages=["en"])
        return DDP(languages=["en"]).get_date_data(S([("n", 2), " days ago"]))
    if kind == "typed-vs-text-value":
        try:
            DDP(languages=["en"], settings={"CACHE_SIZE_LIMIT": "500", "DATE_ORDER": "DMY"})     # rejected: wrong type
        except Exception:  # noqa
            pass
        return DDP(languages=["en"], settings={"CACHE_SIZE_LIMIT": 500, "DATE_ORDER": "DMY"}).get_date_data(
            S([("d", 2), "/", ("m", 2), "/", ("Y", 4)]))
    raise ValueError(kind)


def h_older(kind):
    def fn():
        n = C.ns()
        v = {k: C.field(k, lo, hi) for k, (lo, hi) in _older_fields(kind).items()}
        wit = dict(v)
        bases = {}

        def base(prefix):
            if prefix not in bases:
                bases[prefix] = C.sym_base(prefix, 1900, 2100, with_us=False)
                wit.update(C.base_witness(bases[prefix], prefix))
            return bases[prefix]
        if kind in ("search-same-settings", "search-then-new-parser", "many-settings-then-default"):
            clk = dates.SDateTime._clock()
            core.assume(mkbool(z3.And(_zi(clk.year) >= 1900, _zi(clk.year) <= 2100)))    # stated bound on the clock
        dd = _older_seq(kind, n.D.DateDataParser, n.SE.search_dates, lambda parts: tmpl(parts, v), base)
        do = dd.date_obj
        if kind == "format-strictness-history":
            return C.outcome(do is None, wit, "strict")
        if do is None:
            return C.outcome(False, wit, "none")
        if kind in ("search-same-settings", "search-then-new-parser", "many-settings-then-default"):
            clk = dates.SDateTime._clock()
            ok = z3.And(do._ord() == clk._ord() - _zi(v["n"]), do._us_of_day() == clk._us_of_day())
        elif kind == "construct-other-base":
            b = bases["b"]
            dim = dates.z_dim(z3.IntVal(2015), _zi(b.month))
            ok = z3.And(
                _zi(do.year) == 2015, _zi(do.month) == _zi(b.month), _zi(do.day) == z3.If(_zi(b.day) > dim, dim, _zi(b.day)),
                do._us_of_day() == 0)
        elif kind == "permuted-defaults":
            loc = dd.locale
            ok = z3.And(C.dt_is(do, 2020, 4, v["d"]), z3.BoolVal(getattr(loc, "shortname", loc) == "pt"))
        elif kind in ("skip-token-concatenation", "same-string-other-skip-tokens", "normalize-off-other-skip-tokens"):
            ok = C.dt_is(do, v["Y"], 4, v["d"])
        else:
            ok = C.dt_is(do, v["Y"], v["m"], v["d"])
        return C.outcome(ok, wit, "older")
    return fn


REPEAT = ["search-twice-normalize-off", "parse-after-foreign-parse", "search-languages-reordered", "caller-arguments-unchanged",
          "calendars-same-string"]
_ES_TEXT2 = "La reunión en España será el 3 de marzo de 2021"
_ES_TEXT = "El miércoles 12 de marzo de 2014 llegó"


def _fresh_loader(n):
    """what a fresh process starts with: no language or locale loaded yet"""
    n.LO.LocaleDataLoader._loaded_languages.clear()
    n.LO.LocaleDataLoader._loaded_locales.clear()
    n.D.DateDataParser.locale_loader = None
    # the search module keeps its own map of Locale objects (built at import): drop what they have cached since
    for loc in n.SE._search_with_detection.available_language_map.values():
        for k in [k for k in vars(loc) if k not in ("shortname", "info")]:
            delattr(loc, k)


def _repeat_seq(kind, DDP, search, parse, S):
    """returns (result of the call under test, result the same call must equal)"""
    if kind == "search-twice-normalize-off":
        first = search(_ES_TEXT, settings={"NORMALIZE": False})
        again = search(_ES_TEXT, settings={"NORMALIZE": False})
        return again, first
    if kind == "search-languages-reordered":
        search(_ES_TEXT2, languages=["de", "es"], add_detected_language=True)        # the same languages in the other order first
        got = search(_ES_TEXT2, languages=["es", "de"], add_detected_language=True)
        return got, [("3 de marzo de 2021", _dt.datetime(2021, 3, 3), "es")]
    if kind == "calendars-same-string":
        from dateparser.calendars.hijri import HijriCalendar
        from dateparser.calendars.jalali import JalaliCalendar
        t = " 17-01-1437 \u0647\u0640 08:30 \u0645\u0633\u0627\u0621\u064b"        # a Hijri date-time with an Arabic PM marker
        JalaliCalendar(t).get_date()                    # the other calendar sees the string first
        got = HijriCalendar(t).get_date()
        return (got.date_obj if got is not None else None), _dt.datetime(2015, 10, 30, 20, 30)
    if kind == "caller-arguments-unchanged":
        import copy
        st = {"DEFAULT_LANGUAGES": ["fr", "en"], "SKIP_TOKENS": ["t", "x"], "PARSERS": ["relative-time", "absolute-time"],
              "REQUIRE_PARTS": ["year", "day"]}
        langs, fmts = ["de", "it"], ["%d.%m.%Y", "%Y"]
        before = copy.deepcopy((st, langs, fmts))
        DDP(languages=langs, settings=st).get_date_data("zzzz", fmts)
        DDP(languages=langs, settings=st).get_date_data("12.03.2015", fmts)
        search("am 12.03.2015 und zzzz", languages=langs, settings=st)
        return (st, langs, fmts), before
    if kind == "parse-after-foreign-parse":
        s = S([("d", 2), "/03/2015 10:20:30 ET"])
        parse("14 mars 2015")                     # an earlier call, in another language, through the module-level parser
        return parse(s), DDP().get_date_data(s).date_obj
    raise ValueError(kind)


def _same(a, b):
    if a is None or b is None:
        return a is None and b is None
    if isinstance(a, (list, tuple)):
        return isinstance(b, (list, tuple)) and len(a) == len(b) and all(_same(x, y) for x, y in zip(a, b))
    if isinstance(a, dates.SDateTime) or isinstance(b, dates.SDateTime):
        if (a.tzinfo is None) != (b.tzinfo is None):
            return False
        if a.tzinfo is not None and a.utcoffset() != b.utcoffset():
            return False
        return bool(core.mkbool(z3.And(*[_zi(getattr(a, f)) == _zi(getattr(b, f)) for f in dates._FIELDS])))
    return bool(a == b)


def h_repeat(kind):
    """the same call made twice / after an unrelated call returns what it returns first / alone (loader state as in a fresh
    process at the start of every path)"""
    def fn():
        n = C.ns()
        _fresh_loader(n)
        if kind == "calendars-same-string":
            # the calendar parsers hand "now" to the third-party converters (real code, concrete values only): fixed clock
            core.CUR.notes["clock"] = dates.SDateTime(2020, 6, 15, 12, 0, 0, 0)
        v = {"d": C.field("d", 13, 28)} if kind == "parse-after-foreign-parse" else {}
        got, want = _repeat_seq(kind, n.D.DateDataParser, n.SE.search_dates, n.dateparser.parse, lambda parts: tmpl(parts, v))
        return C.outcome(_same(got, want), dict(v), "repeat")
    return fn


def h_hashseed(langs):
    """'identical ... for all interpreter hash seeds': the iteration order of every set of strings is a decision of the
    path (symx.strings.SET_ORDER_FORK); the languages are tried in the GIVEN order, so the first one's reading wins"""
    def fn():
        from symx import strings
        strings.SET_ORDER_FORK[0] = True
        n = C.ns()
        v = {"Y": C.field("Y", 1000, 9999), "a": C.field("a", 1, 12), "b": C.field("b", 1, 12)}
        s = tmpl([("a", 2), "/", ("b", 2), "/", ("Y", 4)], v)
        dd = n.D.DateDataParser(languages=list(langs), use_given_order=True).get_date_data(s)
        do = dd.date_obj
        if do is None:
            return C.outcome(False, dict(v), "none")
        first = langs[0]
        ok = C.dt_is(do, v["Y"], v["b"], v["a"]) if first == "fr" else C.dt_is(do, v["Y"], v["a"], v["b"])
        return C.outcome(ok, dict(v), "orders:%s" % ",".join(core.CUR.notes.get("set_orders", [])))
    return fn


HISTORIES = ["failed-parse-then-default-order", "failed-parse-then-tl", "cache-limit-sequence", "custom-settings-then-default"]


def tasks(tier, seed):
    out = []
    quick = tier == "quick"

    def add(name, fn, args, budget=200):
        out.append({"name": name, "fn": fn, "args": args, "budget_s": budget if quick else budget * 5, "max_paths": 100000})
    for a in ACCESSORS:
        add("cache-step:%s" % a, "h_cache", {"accessor": a})
    for lang in (["fr", "ja"] if quick else ["fr", "ja", "en", "tl", "de"]):
        add("date-order-restore:%s" % lang, "h_restore", {"lang": lang})
    add("settings-registry", "h_registry", {}, 300)
    for h in HISTORIES:
        add("history:%s" % h, "h_history", {"shape": h}, 300)
    for k in OLDER:
        add("live-object:%s" % k, "h_older", {"kind": k}, 300)
    for k in REPEAT:
        add("repeat:%s" % k, "h_repeat", {"kind": k}, 200)
    for langs in (["fr", "en"], ["en", "fr"]):
        add("hash-seed:given-order:%s" % "+".join(langs), "h_hashseed", {"langs": langs}, 200)
    return out


# ------------------------------------------------------------------------------------------------ replay side
def build_spec(task, viol):
    w = {k: v for k, v in viol["witness"].items() if isinstance(v, (int, bool))}
    return {"task": task["name"], "fn": task["fn"], "args": task["args"], "witness": w}


def native_check(spec):
    from symx import native
    native.import_repo()
    fn, a, w = spec["fn"], spec["args"], spec["witness"]
    if fn == "h_cache":
        from dateparser.languages.dictionary import Dictionary as D
        nk, own_pos, limit = w["nkeys"], w["own_pos"], w["limit"]
        keys = ["k%d" % i for i in range(nk)]
        state = {}
        for i, k in enumerate(keys):
            if i == own_pos:
                state["OWN"] = None
            state[k] = {"xx": ("other", k, "xx"), "yy": ("other", k, "yy")}
        if own_pos >= nk:
            state["OWN"] = None
        if own_pos >= 0:
            state["OWN"] = {}
            if w.get("own_has_other"):
                state["OWN"]["yy"] = ("own", "yy")
        st = _St()
        st.registry_key, st.CACHE_SIZE_LIMIT = "OWN", limit
        d = D(INFO, settings=st)
        cname = _CACHE_OF[a["accessor"]]
        for c in set(_CACHE_OF.values()):
            setattr(D, c, {})
        fresh = getattr(d, a["accessor"])()
        for c in set(_CACHE_OF.values()):
            setattr(D, c, {})
        if own_pos >= 0 and w.get("own_has_me"):
            state["OWN"]["xx"] = fresh
        pre = {k: dict(v) for k, v in state.items()}
        setattr(D, cname, state)
        desc = "%s() with cache keys %r, CACHE_SIZE_LIMIT=%d" % (a["accessor"], list(pre), limit)
        try:
            got = getattr(d, a["accessor"])()
        except KeyError as e:
            return {"violates": True, "detail": "%s raised KeyError(%s)" % (desc, e)}
        post = getattr(D, cname)
        same = (got == fresh) if not hasattr(got, "pattern") else got.pattern == fresh.pattern
        ok = same and all(post[k] == pre[k] for k in post if k != "OWN") and set(post) <= set(pre) | {"OWN"} \
            and "OWN" in post and "xx" in post["OWN"]
        return {"violates": not ok, "detail": "%s -> cache keys %r" % (desc, list(post))}
    if fn == "h_restore":
        import dateparser.date as D
        import dateparser.conf as CONF
        from dateparser.languages.loader import LocaleDataLoader
        mod = {"PREFER_LOCALE_DATE_ORDER": bool(w.get("prefer_locale_order"))}
        if w.get("explicit_date_order"):
            mod["DATE_ORDER"] = "YDM"
        settings = CONF.settings.replace(mod_settings=mod, **mod)
        entry = settings.DATE_ORDER
        locale = list(LocaleDataLoader().get_locales(languages=[a["lang"]]))[0]
        exc = EXC[w["outcome"]]

        class _Stub:
            def parse(self, s, parse_method=None, settings=None):
                if exc is None:
                    return _dt.datetime(2015, 1, 2), "day"
                raise exc("stub")
        D.date_parser = _Stub()
        try:
            D._DateLocaleParser(locale, "01/02/2015", None, settings=settings)._try_parser(parse_method=D._parse_absolute)
        except Exception:
            pass
        return {"violates": settings.DATE_ORDER != entry,
                "detail": "_try_parser with parse outcome %s, locale %s: DATE_ORDER %r -> %r" % (
                    getattr(exc, "__name__", "return"), a["lang"], entry, settings.DATE_ORDER)}
    if fn == "h_registry":
        import dateparser.conf as CONF
        d1, d2 = dict(POOL[w["i"]]), dict(POOL[w["j"]])
        got = {}

        @CONF.apply_settings
        def probe(tag, settings=None):
            got[tag] = settings
        defaults = dict(CONF.Settings._get_settings_from_pyfile())
        probe("a", settings=d1 or None)
        s1 = got["a"]
        if w["mutate"] == 1:
            s1.DATE_ORDER = "YDM"
        elif w["mutate"] == 2:
            s1.NORMALIZE = not s1.NORMALIZE
        elif w["mutate"] == 3:
            s1._mod_settings = {"junk": 1}
        probe("b", settings=d2 or None)
        want = dict(defaults)
        want.update(d1)
        bad = []
        if d1 and d1 != d2 and not w["mutate"]:
            bad = ["after the 2nd call: %s" % k for k, v in want.items() if getattr(s1, k) != v]
            if dict(s1._mod_settings) != d1:
                bad.append("after the 2nd call: _mod_settings=%r" % (s1._mod_settings,))
        probe("c", settings=d1 or None)
        s3 = got["c"]
        bad += [k for k, v in want.items() if getattr(s3, k) != v]
        if d1 and dict(s3._mod_settings) != d1:
            bad.append("_mod_settings=%r" % (s3._mod_settings,))
        return {"violates": bool(bad), "detail": "settings %r, then %r, then %r again (mutation %d): wrong fields %r" % (
            d1, d2, d1, w["mutate"], bad)}
    if fn == "h_hashseed":
        import subprocess
        from symx import runner
        s_ = "%02d/%02d/%04d" % (w["a"], w["b"], w["Y"])
        exp = (w["Y"], w["b"], w["a"]) if a["langs"][0] == "fr" else (w["Y"], w["a"], w["b"])
        code = ("import sys; sys.path.insert(0, %r); from dateparser.date import DateDataParser as P; "
                "d = P(languages=%r, use_given_order=True).get_date_data(%r).date_obj; print((d.year, d.month, d.day) if d else None)"
                % (runner.REPO, a["langs"], s_))
        seen = {}
        for hs in range(12):
            r = subprocess.run([runner.PY, "-c", code], capture_output=True, text=True, timeout=120,
                               env=dict(os.environ, PYTHONHASHSEED=str(hs)))
            seen[hs] = r.stdout.strip().splitlines()[-1] if r.stdout.strip() else r.stderr.strip()[-100:]
        bad = {hs: v_ for hs, v_ in seen.items() if v_ != repr(exp)}
        return {"violates": bool(bad), "detail": "DateDataParser(languages=%r, use_given_order=True).get_date_data(%r) under "
                "PYTHONHASHSEED 0..11: expected %r; differing: %r" % (a["langs"], s_, exp, bad)}
    if fn == "h_repeat":
        import subprocess
        from symx import runner
        kind = a["kind"]
        code = ("import sys, datetime; sys.path.insert(0, %r); sys.path.insert(0, %r); import dateparser; "
                "from dateparser.date import DateDataParser; from dateparser.search import search_dates; "
                "from checks.c03 import _repeat_seq; from symx.tmpl import render; w = %r; "
                "got, want = _repeat_seq(%r, DateDataParser, search_dates, dateparser.parse, lambda parts: render(parts, w)); "
                "print(repr(got)); print(repr(want)); print('SAME' if got == want else 'DIFFERENT')"
                % (runner.REPO, runner.VERIF, w, kind))
        r = subprocess.run([os.path.join(runner.VERIF, ".venv", "bin", "python"), "-c", code], capture_output=True, text=True, timeout=300)
        lines = r.stdout.strip().splitlines()
        if r.returncode != 0 or len(lines) < 3:
            return {"violates": True, "detail": "repeat history %s crashed: %s" % (kind, r.stderr.strip()[-300:])}
        return {"violates": lines[-1] != "SAME", "detail": "repeat history %s (see checks/c03.py:_repeat_seq, witness %r) in a fresh "
                "process: got %s; must equal %s" % (kind, w, lines[-3][:200], lines[-2][:200])}
    from dateparser.date import DateDataParser
    if fn == "h_older":
        from dateparser.search import search_dates
        kind = a["kind"]
        clock = C.clock_from_witness(w)
        calls = []

        def S(parts):
            calls.append(render(parts, w))
            return calls[-1]
        try:
            with native.frozen_clock(clock):
                dd = _older_seq(kind, DateDataParser, search_dates, S,
                                lambda prefix: _dt.datetime(*C.base_from_witness(w, prefix)))
        except Exception as e:  # noqa
            return {"violates": True, "detail": "live-object history %s (strings %r) raised %s: %s" % (kind, calls, type(e).__name__, e)}
        do = dd.date_obj
        desc = "live-object history %s (see checks/c03.py:_older_seq; strings %r, clock %r, bases %r) -> %r (locale %s)" % (
            kind, calls, clock, {p: C.base_from_witness(w, p) for p in ("b", "c") if C.base_from_witness(w, p)}, do,
            getattr(dd.locale, "shortname", dd.locale))
        if kind == "format-strictness-history":
            return {"violates": do is not None, "detail": desc + "; expected None (the string states no day)"}
        if kind in ("search-same-settings", "search-then-new-parser", "many-settings-then-default"):
            exp = _dt.datetime(*clock) - _dt.timedelta(days=w["n"])
        elif kind == "construct-other-base":
            import calendar
            b = C.base_from_witness(w, "b")
            exp = _dt.datetime(2015, b[1], min(b[2], calendar.monthrange(2015, b[1])[1]))
        elif kind == "permuted-defaults":
            exp = _dt.datetime(2020, 4, w["d"])
            if do == exp and getattr(dd.locale, "shortname", dd.locale) != "pt":
                return {"violates": True, "detail": desc + "; expected locale pt (first of the given DEFAULT_LANGUAGES)"}
        elif kind in ("skip-token-concatenation", "same-string-other-skip-tokens", "normalize-off-other-skip-tokens"):
            exp = _dt.datetime(w["Y"], 4, w["d"])
        else:
            exp = _dt.datetime(w["Y"], w["m"], w["d"])
        return {"violates": do != exp, "detail": desc + "; expected %r" % (exp,)}
    # API histories

    def api(s, languages, settings=None):
        return DateDataParser(languages=languages, settings=settings).get_date_data(s)
    shape = a["shape"]
    s = "%02d/%02d/%04d" % (w["m"], w["d"], w["Y"])
    try:
        if shape == "failed-parse-then-default-order":
            api("32/13/2015", ["fr"])
            dd = api(s, ["en"], {"PREFER_LOCALE_DATE_ORDER": False})
        elif shape == "failed-parse-then-tl":
            api("31-02-2015", ["de"])
            dd = api(s, ["tl"])
        elif shape == "cache-limit-sequence":
            api("12 march 2015", ["en"], {"CACHE_SIZE_LIMIT": 1})
            api("12 march 2015", ["en"])
            api("12 mars 2015", ["fr"], {"CACHE_SIZE_LIMIT": 1})
            dd = api(s, ["en"], {"CACHE_SIZE_LIMIT": 1})
        else:
            api("31.12.2015", ["en"], {"DATE_ORDER": "DMY", "NORMALIZE": False, "SKIP_TOKENS": ["x"],
                                                              "PREFER_DAY_OF_MONTH": "last"})
            dd = api(s, ["en"])
    except Exception as e:  # noqa
        return {"violates": True, "detail": "history %s ending with %r raised %s: %s" % (shape, s, type(e).__name__, e)}
    exp = _dt.datetime(w["Y"], w["m"], w["d"])
    return {"violates": dd.date_obj != exp, "detail": "history %s ending with %r -> %r, expected %r" % (shape, s, dd.date_obj, exp)}


def classify_known(spec, verdict, known):
    return None
