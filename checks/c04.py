"""C04 — relative expressions are exact calendar arithmetic on the base (symx, public API entry)."""
import calendar as _cal
import datetime as _dt

import z3

from symx import core, dates
from symx.core import _zi, mkbool
from symx.tmpl import tmpl, render
from . import common as C

ID = "C04"
ENCODED = ["dateparser.date.DateDataParser.get_date_data", "dateparser.date._DateLocaleParser._try_freshness_parser",
           "dateparser.freshness_date_parser.FreshnessDateDataParser.parse/_parse_date/get_kwargs/_parse_time/"
           "_are_all_words_units", "dateutil.relativedelta.relativedelta (__init__, _fix, __neg__, __radd__/__add__) "
           "executed from its installed source through the loader", "dateparser.utils.localize_timezone/apply_timezone",
           "dateparser.parser._time_parser", "dateparser.languages.locale.Locale.translate/is_applicable"]
ASSUMPTIONS = [
    "bounded claim: every reference instant 0001-9999 (RELATIVE_BASE symbolic incl. microseconds), whole counts n with "
    "the written width (0..9, 0..99, 0..9999 - a superset of 0..5000), both directions, for the listed English phrase "
    "shapes; decimals are outside (floats)",
    "oracle = independent calendar arithmetic in z3: years/decades/months first with the day clamped to the month "
    "length, then weeks/days/hours/minutes/seconds linearly on the (ordinal, µs-of-day) pair; None exactly when the "
    "result leaves [0001-01-01, 9999-12-31]",
    "implicit-now form: clock stub (one arbitrary UTC instant per API call); TIMEZONE from a set of fixed-offset zones; "
    "process-local zone = UTC",
    "date theory (symx.dates) stands for CPython datetime/calendar; symbolic regex stands for re/regex on templates",
]
UNITS = ["second", "minute", "hour", "day", "week", "month", "year", "decade"]
_SECS = {"second": 1, "minute": 60, "hour": 3600}
_DAYS = {"day": 1, "week": 7}
_MONTHS = {"month": 1, "year": 12, "decade": 120}
WORDS = {
    "now": ("ago", [("second", 0)]), "today": ("ago", [("day", 0)]), "yesterday": ("ago", [("day", 1)]),
    "tomorrow": ("in", [("day", 1)]), "last week": ("ago", [("week", 1)]), "next week": ("in", [("week", 1)]),
    "last month": ("ago", [("month", 1)]), "next month": ("in", [("month", 1)]), "last year": ("ago", [("year", 1)]),
    "next year": ("in", [("year", 1)]),
}


def expected_period(units, has_time, time_as_period):
    if has_time and time_as_period:
        return "time"
    if "day" in units:
        return "day"
    for u in ("week", "month", "year"):
        if u in units or (u == "year" and "decade" in units):
            return u
    return "day"


def z_oracle(b, counts, sign, clock_time=None):
    """counts: list of (unit, z3 term).  returns (valid, ord, tod)"""
    months = sum((_MONTHS[u] * n for u, n in counts if u in _MONTHS), z3.IntVal(0))
    days = sum((_DAYS[u] * n for u, n in counts if u in _DAYS), z3.IntVal(0))
    secs = sum((_SECS[u] * n for u, n in counts if u in _SECS), z3.IntVal(0))
    Y, M, D = _zi(b.year), _zi(b.month), _zi(b.day)
    tot = Y * 12 + (M - 1) + sign * months
    y2, m2 = tot / 12, tot % 12 + 1
    dim = dates.z_dim(y2, m2)
    d2 = z3.If(D <= dim, D, dim)
    v1 = z3.And(y2 >= 1, y2 <= 9999)
    t = b._us_of_day() + sign * secs * 1000000
    o2 = dates.z_ord(y2, m2, d2) + sign * days + t / dates.K_DAY
    r2 = t % dates.K_DAY
    v2 = z3.And(o2 >= 1, o2 <= dates.MAXORD)
    if clock_time is not None:
        r2 = (clock_time[0] * 60 + clock_time[1]) * 60 * 1000000
        if len(clock_time) > 2:
            r2 = r2 + clock_time[2] * 1000000 + clock_time[3]
    return z3.simplify(z3.And(v1, v2)), z3.simplify(o2), z3.simplify(r2)


def phrase_parts(shape):
    """shape: {"dir": "ago"|"in", "units": [(unit, width, plural)], "time": bool, "word": str|None}"""
    if shape.get("word"):
        p = [shape["word"]]
    else:
        p = ["in "] if shape["dir"] == "in" else []
        for i, (u, w, plural) in enumerate(shape["units"]):
            if i:
                p.append(shape.get("joiner", " "))
            p += [("n%d" % i, w), " " + u + ("s" if plural else "")]
        if shape["dir"] == "ago":
            p.append(" ago")
    if shape.get("time"):
        p += [shape.get("tjoin", " at "), ("H", 2), ":", ("M", 2)]
        if shape.get("time") == "us":
            p += [":", ("S", 2), ".", ("f", 6)]       # seconds and a six-digit fraction
    return p


def h_rel(shape, implicit_tz=None, time_as_period=False):
    parts = phrase_parts(shape)

    def fn():
        st = {}
        if implicit_tz is None:
            b = C.sym_base("b")
            st["RELATIVE_BASE"] = b
            st["TIMEZONE"] = "UTC"
            wit = C.base_witness(b)
        else:
            wit = {}
            if implicit_tz != "local":
                st["TIMEZONE"] = implicit_tz
            # the system clock is not at the very ends of the representable range (a +-14 h zone shift must exist)
            clk0 = dates.SDateTime._clock()
            if "/" in implicit_tz:
                core.assume(mkbool(_zi(clk0.year) == 2021))      # window of the zone table (tz-database zone with transitions)
            else:
                core.assume(mkbool(z3.And(_zi(clk0.year) >= 2, _zi(clk0.year) <= 9998)))
        if time_as_period:
            st["RETURN_TIME_AS_PERIOD"] = True
        v = {}
        if shape.get("word"):
            sign = -1 if WORDS[shape["word"]][0] == "ago" else 1
            counts = [(u, z3.IntVal(n)) for u, n in WORDS[shape["word"]][1]]
            units = [u for u, _ in WORDS[shape["word"]][1]]
        else:
            sign = 1 if shape["dir"] == "in" else -1
            counts, units = [], []
            for i, (u, w, plural) in enumerate(shape["units"]):
                v["n%d" % i] = C.field("n%d" % i, 0, 10 ** w - 1)
                counts.append((u, _zi(v["n%d" % i])))
                units.append(u)
        ct = None
        if shape.get("time"):
            v["H"], v["M"] = C.field("H", 0, 23), C.field("M", 0, 59)
            ct = (_zi(v["H"]), _zi(v["M"]))
            if shape.get("time") == "us":
                v["S"], v["f"] = C.field("S", 0, 59), C.field("f", 0, 999999)
                ct = ct + (_zi(v["S"]), _zi(v["f"]))
        s = tmpl(parts, v)
        dd = C.api(s, languages=["en"], settings=st)
        wit.update(v)
        if implicit_tz is not None:
            clk = dates.SDateTime._clock()
            if "/" in implicit_tz:
                from . import zones
                tab = zones.table(implicit_tz, 2020, 2022)
                zoff = zones.z_offset_at_utc(tab, clk._ord(), clk._us_of_day())
                b = clk._shift(dates.STimedelta(seconds=core.mkint(zoff)))
            else:
                off = 0 if implicit_tz == "local" else _off_us(implicit_tz)
                b = clk._shift_us(off) if off else clk
        valid, o2, r2 = z_oracle(b, counts, sign, ct)
        do = dd.date_obj
        per = expected_period(units, bool(shape.get("time")), time_as_period)
        if do is None:
            return C.outcome(z3.Not(valid), wit, "none")
        ok = z3.And(valid, do._ord() == o2, do._us_of_day() == r2, do.tzinfo is None, dd.period == per)
        return C.outcome(ok, wit, "parsed")
    return fn


_ABBR_H = {"PKT": 5, "JST": 9, "PST": -8, "AEST": 10}     # fixed-offset abbreviations of the library's table (any letter case)


def _off_us(tz):
    import re
    if tz in ("UTC", "local"):
        return 0
    if tz.upper() in _ABBR_H:
        return _ABBR_H[tz.upper()] * 3600 * 1000000
    m = re.fullmatch(r"([+-])(\d\d)(\d\d)", tz)
    return (1 if m.group(1) == "+" else -1) * (int(m.group(2)) * 3600 + int(m.group(3)) * 60) * 1000000


# ------------------------------------------------------------------------------------------------ task lists
def _single(u, d, w, plural=True, time=False):
    return {"dir": d, "units": [(u, w, plural)], "time": time}


def tasks(tier, seed):
    out = []
    quick = tier == "quick"

    def add(name, shape, budget=300, **kw):
        args = dict(shape=shape, **kw)
        out.append({"name": name, "fn": "h_rel", "args": args, "budget_s": budget if quick else budget * 5, "max_paths": 20000})
    for i, u in enumerate(UNITS):
        if quick:
            d = "ago" if (i + seed) % 2 == 0 else "in"
            w = [2, 4, 1][(i + seed) % 3]
            add("%s:%s:w%d" % (u, d, w), _single(u, d, w))
        else:
            for d in ("ago", "in"):
                for w in (1, 2, 4):
                    add("%s:%s:w%d" % (u, d, w), _single(u, d, w))
            add("%s:ago:singular" % u, _single(u, "ago", 1, plural=False))
    pairs = [("year", "month"), ("month", "day"), ("week", "day"), ("day", "hour"), ("hour", "minute"),
             ("year", "week"), ("decade", "year"), ("month", "hour"), ("minute", "second"), ("year", "day")]
    if quick:
        pairs = [pairs[(seed + j * 3) % len(pairs)] for j in range(3)]
    for j, (u1, u2) in enumerate(pairs):
        d = "ago" if (j + seed) % 2 == 0 else "in"
        add("pair:%s+%s:%s" % (u1, u2, d), {"dir": d, "units": [(u1, 2, True), (u2, 2, True)], "joiner": ", " if j % 2 else " "})
        if not quick:
            d2 = "in" if d == "ago" else "ago"
            add("pair:%s+%s:%s" % (u1, u2, d2), {"dir": d2, "units": [(u1, 2, True), (u2, 2, True)]})
            add("pair:%s+%s:%s" % (u2, u1, d), {"dir": d, "units": [(u2, 2, True), (u1, 2, True)]})
    if quick:
        # unit order must not matter: the decade/year fold is order-sensitive code, both orders are always visited
        add("pair:year+decade:ago", {"dir": "ago", "units": [("year", 1, True), ("decade", 1, True)]})
        add("pair:decade+year:in", {"dir": "in", "units": [("decade", 1, True), ("year", 1, True)]})
    triples = [("year", "month", "day"), ("month", "week", "hour"), ("decade", "year", "month"), ("day", "hour", "minute")]
    for j, t in enumerate(triples if not quick else [triples[seed % len(triples)]]):
        add("triple:%s" % "+".join(t), {"dir": "ago" if j % 2 == 0 else "in", "units": [(u, 1, True) for u in t]})
    words = sorted(WORDS)
    for wd in (words if not quick else [words[(seed + 3 * j) % len(words)] for j in range(4)]):
        add("word:%s" % wd, {"word": wd})
    add("time:days ago at HH:MM", _single("day", "ago", 2, time=True))
    add("time:days ago at HH:MM:SS.ffffff", dict(_single("day", "ago", 2), time="us"))
    out[-1]["solver_timeout_ms"] = 150000
    add("time:yesterday at HH:MM", {"word": "yesterday", "time": True})
    add("time:in hours HH:MM:time_as_period", dict(_single("hour", "in", 2, time=True), tjoin=" "), time_as_period=True)
    if not quick:
        add("time:word tomorrow:time_as_period", {"word": "tomorrow", "time": True}, time_as_period=True)
        add("time:months ago at", _single("month", "ago", 2, time=True))
    from . import zones
    for z in [z for z in (["Europe/Paris"] if quick else ["Europe/Paris", "America/New_York", "Australia/Lord_Howe"])
              if zones.usable(z, 2020, 2022)]:
        add("implicit-now:%s:in hours" % z, _single("hour", "in", 2), implicit_tz=z)
    for tz in (["+0530", "local", ["pkt", "Jst", "aest"][seed % 3]] if quick else
               ["UTC", "local", "+0530", "-0800", "+1245", "-0330", "pkt", "Jst", "PST", "aest", "PKT"]):
        add("implicit-now:%s:days ago" % tz, _single("day", "ago", 2), implicit_tz="UTC" if tz == "UTC" else tz)
        if not quick:
            add("implicit-now:%s:in hours" % tz, _single("hour", "in", 2), implicit_tz="UTC" if tz == "UTC" else tz)
    return out


# ------------------------------------------------------------------------------------------------ replay side
def build_spec(task, viol):
    w = C.ints(viol["witness"])
    a = task["args"]
    shape = a["shape"]
    st = {}
    if a.get("implicit_tz") is None:
        st["RELATIVE_BASE"] = C.base_from_witness(w)
        st["TIMEZONE"] = "UTC"
    elif a["implicit_tz"] != "local":
        st["TIMEZONE"] = a["implicit_tz"]
    if a.get("time_as_period"):
        st["RETURN_TIME_AS_PERIOD"] = True
    clock = C.clock_from_witness(w)
    if clock is None and a.get("implicit_tz") is not None:
        clock = [2000, 1, 1, 0, 0, 0, 0]       # the reference IS the clock: the replay is frozen at the instant the oracle uses
    return {"task": task["name"], "witness": w, "clock": clock, "shape": shape,
            "implicit_tz": a.get("implicit_tz"), "time_as_period": bool(a.get("time_as_period")),
            "call": {"string": render(phrase_parts(shape), w), "languages": ["en"], "settings": st}}


def native_oracle(b, counts, sign, clock_time):
    months = sum(_MONTHS[u] * n for u, n in counts if u in _MONTHS)
    days = sum(_DAYS[u] * n for u, n in counts if u in _DAYS)
    secs = sum(_SECS[u] * n for u, n in counts if u in _SECS)
    tot = b.year * 12 + b.month - 1 + sign * months
    y2, m2 = tot // 12, tot % 12 + 1
    if not 1 <= y2 <= 9999:
        return None
    d2 = min(b.day, _cal.monthrange(y2, m2)[1])
    try:
        r = b.replace(year=y2, month=m2, day=d2) + _dt.timedelta(days=sign * days, seconds=sign * secs)
    except OverflowError:
        return None
    if clock_time is not None:
        r = r.replace(hour=clock_time[0], minute=clock_time[1], second=0, microsecond=0)
        if len(clock_time) > 2:
            r = r.replace(second=clock_time[2], microsecond=clock_time[3])
    return r


def native_check(spec):
    from symx import native
    res = native.call_api(spec["call"], spec.get("clock"))
    shape, w = spec["shape"], spec["witness"]
    if spec["implicit_tz"] is None:
        b = _dt.datetime(*spec["call"]["settings"]["RELATIVE_BASE"])
    else:
        clk = spec.get("clock") or [2000, 1, 1, 0, 0, 0, 0]
        if "/" in spec["implicit_tz"]:
            from . import zones
            off = zones.offset_at_utc_native(zones.table(spec["implicit_tz"], 2020, 2022), _dt.datetime(*clk)) * 1000000
        else:
            off = 0 if spec["implicit_tz"] in ("local", "UTC") else _off_us(spec["implicit_tz"])
        b = _dt.datetime(*clk) + _dt.timedelta(microseconds=off)
    if shape.get("word"):
        sign = -1 if WORDS[shape["word"]][0] == "ago" else 1
        counts = list(WORDS[shape["word"]][1])
    else:
        sign = 1 if shape["dir"] == "in" else -1
        counts = [(u, w["n%d" % i]) for i, (u, _w, _p) in enumerate(shape["units"])]
    ct = (w["H"], w["M"]) if shape.get("time") else None
    if shape.get("time") == "us":
        ct = ct + (w["S"], w["f"])
    exp = native_oracle(b, counts, sign, ct)
    per = expected_period([u for u, _ in counts], bool(shape.get("time")), spec["time_as_period"])
    desc = "parse(%r, settings=%r, clock=%r)" % (spec["call"]["string"], spec["call"]["settings"], spec.get("clock"))
    if "exception" in res:
        return {"violates": True, "detail": "%s raised %s" % (desc, res["exception"])}
    got = res["date_obj"]
    if got is not None:
        if got.tzinfo is not None:
            return {"violates": True, "detail": "%s -> aware %r" % (desc, got)}
        got = _dt.datetime(*got.timetuple()[:6], got.microsecond)
    bad = got != exp or (got is not None and res["period"] != per)
    return {"violates": bad, "detail": "%s -> %r period=%r; expected %r period=%r" % (desc, got, res["period"], exp, per)}


def classify_known(spec, verdict, known):
    return None
