"""C14 — custom date_formats round-trip what the format expresses (symx, public API entry)."""
import calendar as _cal
import datetime as _dt
import re

import z3

from symx import core, dates
from symx.core import _zi, mkbool
from symx.tmpl import tmpl, render
from . import common as C

ID = "C14"
ENCODED = ["dateparser.date.DateDataParser.get_date_data", "dateparser.date.parse_with_formats",
           "datetime.strptime = stdlib _strptime._strptime_datetime/_strptime executed through the loader",
           "dateparser.utils.set_correct_day_from_settings/set_correct_month_from_settings",
           "dateparser.utils.apply_timezone_from_settings", "dateparser.date._DateLocaleParser._try_given_formats",
           "dateparser.languages.locale.Locale.translate(keep_formatting=True) (localized tasks)"]
ASSUMPTIONS = [
    "bounded claim: the listed strptime formats (distinct directives), every datetime the format can express with years "
    "1-9999 (two-digit years: 00-99), English month/weekday names (each name is a separate task; the weekday word is the "
    "true weekday of the date when the format also fixes the full date), month names of the visited languages for the "
    "localized tasks",
    "year-less formats: dates other than Feb 29, as the property states; the missing year is the clock stub's year",
    "missing day/month: PREFER_* symbolic; 'current' refers to the system clock (clock stub), as in C08",
    "date theory (symx.dates) stands for CPython datetime/calendar; symbolic regex stands for re/regex on templates",
]

_DIR = {"Y": ("Y", 4), "m": ("m", 2), "d": ("d", 2), "H": ("H", 2), "M": ("M", 2), "S": ("S", 2), "f": ("f", 6),
        "y": ("y", 2), "I": ("I", 2)}
FORMATS = [
    "%Y-%m-%d", "%d/%m/%Y", "%m/%d/%Y %H:%M", "%Y%m%d", "%Y-%m-%dT%H:%M:%S", "%d.%m.%y", "%d %B %Y", "%B %d, %Y",
    "%b %d %Y %I:%M %p", "%A, %d %B %Y", "%a %d %b %Y", "%Y-%m-%d %H:%M:%S.%f", "%m-%Y", "%Y", "%B %Y", "%d %B", "%d/%m",
    "%H:%M", "%Y/%m/%d %H:%M:%S", "%d-%m-%Y %I:%M:%S %p", "%y%m%d", "%d %b %y", "%Y.%m.%d", "%m/%d/%y", "%H:%M:%S %d/%m/%Y",
    "%Y %B", "%b %Y", "%d.%m.%Y %H.%M", "%Y-%m", "%B %d", "%I:%M %p %d %B %Y", "%d %m %Y", "%Y%m%d%H%M%S",
    "%a, %d %b %Y %H:%M:%S", "%A %d %B %Y %H:%M", "%y-%m-%d %H:%M", "%m.%Y", "%d %B %Y %H:%M:%S.%f", "%Y-%m-%d %I %p",
    "%S:%M:%H %Y-%d-%m",
    # the format states a day but no month (the month is completed; December when the day does not fit the preferred one)
    "%d %Y", "%Y/%d %H:%M",
    # strings that sanitising/heuristics would rewrite: the raw string matches the format and must win
    "%y.%b.%d", "%b. %d, %Y", "%d.%m.%Y.", "%Y-%m-%d %H:%M:", "%d %B %Y г.", "on: %d/%m/%Y",
]


def directives(fmt):
    return re.findall(r"%([A-Za-z])", fmt)


def fmt_parts(fmt, month=None, wday=None, pm=None, month_name=None):
    """template parts of strftime(fmt) with English names (month/wday/pm choose the concrete words)"""
    out = []
    for tok in re.split(r"(%[A-Za-z])", fmt):
        if not tok:
            continue
        if tok.startswith("%") and len(tok) == 2:
            d = tok[1]
            if d in _DIR:
                out.append(_DIR[d])
            elif d == "B":
                out.append(month_name if month_name else C.EN_MONTHS[month - 1].capitalize())
            elif d == "b":
                out.append(month_name if month_name else C.EN_MON[month - 1].capitalize())
            elif d == "A":
                out.append(C.EN_DAYS[wday].capitalize())
            elif d == "a":
                out.append(C.EN_DAY3[wday].capitalize())
            elif d == "p":
                out.append("PM" if pm else "AM")
            else:
                raise ValueError(tok)
        else:
            out.append(tok)
    return out


def h_fmt(fmt, month=None, wday=None, pm=None, languages=("en",), month_name=None):
    ds = directives(fmt)
    parts = fmt_parts(fmt, month, wday, pm, month_name)
    has_year = "Y" in ds or "y" in ds
    has_month = any(d in ds for d in "mbB")
    has_day = "d" in ds

    def fn():
        st, wit = C.pref_settings()
        v = {}
        if "Y" in ds:
            v["Y"] = C.field("Y", 1, 9999)
            year = v["Y"]
        elif "y" in ds:
            v["y"] = C.field("y", 0, 99)
            year = core.mkint(z3.If(_zi(v["y"]) <= 68, 2000 + _zi(v["y"]), 1900 + _zi(v["y"])))
        else:
            year = None
        if month is not None:
            v["m"] = month
        elif "m" in ds:
            v["m"] = C.field("m", 1, 12)
        if has_day:
            v["d"] = C.field("d", 1, 31)
        for n in "HMS":
            if n in ds:
                v[n] = C.field(n, *C._RANGES[n])
        if "I" in ds:
            v["I"] = C.field("I", 1, 12)
            v["H"] = core.mkint(z3.If(_zi(v["I"]) == 12, 12 if pm else 0, _zi(v["I"]) + (12 if pm else 0)))
        if "f" in ds:
            v["f"] = C.field("f", 0, 999999)
        # validity of what the format states
        if has_day and has_month and year is not None:
            core.assume(mkbool(_zi(v["d"]) <= dates.z_dim(_zi(year), _zi(v["m"]))))
        elif has_day and has_month:
            core.assume(mkbool(_zi(v["d"]) <= dates.z_dim(z3.IntVal(2001), _zi(v["m"]))))   # not Feb 29
        if wday is not None and has_day and has_month and year is not None:
            core.assume(mkbool((dates.z_ord_expr(_zi(year), _zi(v["m"]), _zi(v["d"])) + 6) % 7 == wday))
        s = tmpl(parts, v)
        dd = C.api(s, languages=list(languages), settings=st, date_formats=[fmt])
        wit.update(v)
        do = dd.date_obj
        if do is None:
            return C.outcome(False, wit, "none")
        clk = dates.SDateTime._clock() if not (has_year and has_month and has_day) else None
        ey = _zi(year) if year is not None else _zi(clk.year)
        pd, pm_ = st["PREFER_DAY_OF_MONTH"], st["PREFER_MONTH_OF_YEAR"]
        if has_month:
            em = _zi(v["m"])
        else:
            em = z3.If(pm_.z == 1, 1, z3.If(pm_.z == 2, 12, _zi(clk.month)))
            if has_day:
                em = z3.If(_zi(v["d"]) <= dates.z_dim(ey, em), em, 12)
        if has_day:
            ed = _zi(v["d"])
        else:
            # the day is completed in the year strptime produced (the given one, else 1900) and the chosen month
            y_for_dim = _zi(year) if year is not None else z3.IntVal(1900)
            dim = dates.z_dim(y_for_dim, em)
            ed = z3.If(pd.z == 1, 1, z3.If(pd.z == 2, dim, z3.If(_zi(clk.day) <= dim, _zi(clk.day), dim)))
        ok = z3.And(_zi(do.year) == ey, _zi(do.month) == em, _zi(do.day) == ed, _zi(do.hour) == _zi(v.get("H", 0)),
                    _zi(do.minute) == _zi(v.get("M", 0)), _zi(do.second) == _zi(v.get("S", 0)),
                    _zi(do.microsecond) == _zi(v.get("f", 0)), do.tzinfo is None)
        return C.outcome(ok, wit, "parsed")
    return fn


# ------------------------------------------------------------------------------------------------ task lists
def _variants(fmt, seed, quick):
    ds = directives(fmt)
    months = [None]
    if "B" in ds or "b" in ds:
        months = [(seed % 12) + 1, ((seed + 6) % 12) + 1] if quick else list(range(1, 13))
        if quick and 2 not in months and "d" in ds:
            months.append(2)
    wdays = [None]
    if "A" in ds or "a" in ds:
        wdays = [seed % 7] if quick else list(range(7))
    pms = [None]
    if "p" in ds:
        pms = [False, True]
    for m in months:
        for w in wdays:
            for p in pms:
                yield m, w, p


def localized_names(seed, quick):
    """(language, month index, name) for single-meaning month names of the visited languages"""
    order, _ = C.languages_index()
    langs = [l for l in order if l != "en"]
    if quick:
        langs = [langs[(seed * 3 + j) % len(langs)] for j in range(3)] + ["fr", "ru"]
    out = []
    from symx import runner
    known = set()
    for k in runner.load_known():
        if k["id"] == "C05-vocabulary-conflicts" and k.get("status", "open") == "open":
            known = {(e["locale"], e["name"]) for e in k.get("entries", [])}
    english = set(C.EN_MONTHS) | set(C.EN_MON) | {"sept"}
    for lang in langs:
        for name, ms in sorted(C.meanings(C.combined_info(lang)).items()):
            if len(ms) != 1:
                continue
            kind, val = list(ms)[0]
            # single-meaning month names only; a name that is also an English month name is read by the raw-string
            # format match (which the property says wins); names of the open C05 finding have the same root cause
            if kind == "month" and _wordlike(name) and len(name) > 2 and name not in english and (lang, name) not in known:
                out.append((lang, val, name))
    if quick:
        out = [out[(seed * 11 + 13 * j) % len(out)] for j in range(8)] if out else []
        # in every run: names spelled with a format character (ZWNJ/ZWJ), in whatever language
        import unicodedata
        for lang in [l for l in order if l != "en"]:
            for name, ms in sorted(C.meanings(C.combined_info(lang)).items()):
                if len(ms) == 1 and list(ms)[0][0] == "month" and _wordlike(name) and (lang, name) not in known \
                        and any(unicodedata.category(ch) == "Cf" for ch in name) and (lang, list(ms)[0][1], name) not in out:
                    out.append((lang, list(ms)[0][1], name))
    return out


def _wordlike(name):
    """letters, combining marks and format characters only (no spaces, digits or punctuation)"""
    import unicodedata
    return all(unicodedata.category(ch)[0] in "LM" or unicodedata.category(ch) == "Cf" for ch in name)


def tasks(tier, seed):
    out = []
    quick = tier == "quick"

    def add(name, args, budget=200):
        out.append({"name": name, "fn": "h_fmt", "args": args, "budget_s": budget if quick else budget * 5, "max_paths": 5000})
    for fmt in FORMATS:
        for m, w, p in _variants(fmt, seed, quick):
            tag = fmt + ("" if m is None else ":m%02d" % m) + ("" if w is None else ":w%d" % w) + ("" if p is None else (":pm" if p else ":am"))
            add(tag, {"fmt": fmt, "month": m, "wday": w, "pm": p})
    for lang, mi, name in localized_names(seed, quick):
        add("localized:%s:%s" % (lang, name), {"fmt": "%d %B %Y", "month": mi, "languages": [lang], "month_name": name})
    return out


# ------------------------------------------------------------------------------------------------ replay side
def build_spec(task, viol):
    w = C.ints(viol["witness"])
    a = task["args"]
    parts = fmt_parts(a["fmt"], a.get("month"), a.get("wday"), a.get("pm"), a.get("month_name"))
    vals = dict(w)
    return {"task": task["name"], "witness": w, "clock": C.clock_from_witness(w), "args": a,
            "call": {"string": render(parts, vals), "languages": a.get("languages", ["en"]), "settings": C.spec_settings({}, w),
                     "date_formats": [a["fmt"]]}}


def native_check(spec):
    from symx import native
    a, w = spec["args"], spec["witness"]
    ds = directives(a["fmt"])
    res = native.call_api(spec["call"], spec.get("clock"))
    desc = "parse(%r, date_formats=%r, languages=%r, settings=%r, clock=%r)" % (
        spec["call"]["string"], spec["call"]["date_formats"], spec["call"]["languages"], spec["call"]["settings"], spec.get("clock"))
    if "exception" in res:
        return {"violates": True, "detail": "%s raised %s" % (desc, res["exception"])}
    clk = spec.get("clock") or [2000, 1, 1, 0, 0, 0, 0]
    st = spec["call"]["settings"]
    if "Y" in ds:
        y = w["Y"]
    elif "y" in ds:
        y = 2000 + w["y"] if w["y"] <= 68 else 1900 + w["y"]
    else:
        y = None
    has_month = any(d in ds for d in "mbB")
    m = (a.get("month") or w.get("m")) if has_month else {"first": 1, "last": 12, "current": clk[1]}[st.get("PREFER_MONTH_OF_YEAR", "current")]
    if "d" in ds:
        d = w["d"]
        if not has_month and d > _cal.monthrange(y if y is not None else clk[0], m)[1]:
            m = 12        # documented fallback when the stated day does not exist in the preferred month
    else:
        dim = _cal.monthrange(y if y is not None else 1900, m)[1]
        d = {"first": 1, "last": dim, "current": min(clk[2], dim)}[st.get("PREFER_DAY_OF_MONTH", "current")]
    H = w.get("H", 0)
    if "I" in ds:
        pm = bool(a.get("pm"))
        H = (12 if pm else 0) if w["I"] == 12 else w["I"] + (12 if pm else 0)
    exp = _dt.datetime(y if y is not None else clk[0], m, d, H, w.get("M", 0), w.get("S", 0), w.get("f", 0))
    got = res["date_obj"]
    bad = got is None or got.tzinfo is not None or _dt.datetime(*got.timetuple()[:6], got.microsecond) != exp
    return {"violates": bad, "detail": "%s -> %r; expected %r" % (desc, got, exp)}


def classify_known(spec, verdict, known):
    return None
