"""C09 — PREFER_DATES_FROM selects the past/future occurrence, keeping the named parts (symx, public API entry)."""
import calendar as _cal
import datetime as _dt

import z3

from symx import core, dates
from symx.core import SInt, _zi, mkbool
from symx.tmpl import tmpl, render
from . import common as C

ID = "C09"
ENCODED = ["dateparser.date.DateDataParser.get_date_data", "dateparser.date_parser.DateParser.parse",
           "dateparser.parser._parser.parse/_results/_get_datetime_obj/_get_correct_leap_year/_correct_for_time_frame/"
           "_correct_for_month/_correct_for_day", "dateparser.utils.get_next_leap_year/get_previous_leap_year",
           "dateparser.utils.set_correct_day_from_settings/set_correct_month_from_settings",
           "dateparser.utils.get_timezone_from_tz_string", "dateparser.utils.strptime.strptime",
           "_strptime._strptime (stdlib clone)", "dateparser.languages.locale.Locale.translate/is_applicable"]
ASSUMPTIONS = [
    "bounded claim: every reference instant with year in [5, 9995] (so that a +-1 year / +-7 day step and the "
    "previous/next leap year stay representable; the ends of the range are C02's subject), every day number / HH:MM / two-digit year, each of the "
    "three PREFER_DATES_FROM values, PREFER_DAY_OF_MONTH/PREFER_MONTH_OF_YEAR at their defaults, TIMEZONE='UTC' "
    "(time-only form also under fixed offsets and under tz-database zones with transitions, reference year 2021, wall-clock "
    "times that exist exactly once on the reference's date and its neighbours; pytz's own code runs symbolically, the oracle "
    "is a zoneinfo-derived table), English templates only",
    "two-digit-year forms: reference years 1970-2067 as the property states; Feb 29 with a two-digit year is excluded "
    "(no such date may exist in the century the preference selects); 'D Month' with current_period excludes Feb 29 "
    "outside leap reference years",
    "date theory (symx.dates) stands for CPython datetime/calendar; symbolic regex stands for re/regex on templates",
    "nearest occurrence for the time-only form: the written wall-clock time (in TIMEZONE) on the reference's calendar "
    "date, moved one day back (past) / forward (future) when it lies on the wrong side of the reference instant",
    "while finding C09-month-reset is listed as open in known_findings.json, weekday-only/time-only results whose "
    "correct month differs from the reference month may equal either the correct date or the characterised wrong "
    "date (correct year and day, month reset to the reference month, December if that day does not exist there); any "
    "third value is a violation",
]
PREFS = ["current_period", "past", "future"]
YMIN, YMAX = 5, 9995


def _le(do, b):
    """do <= b on naive values"""
    return dates.z_lex_le(do._ord(), do._us_of_day(), b._ord(), b._us_of_day())


def _ge(do, b):
    return dates.z_lex_le(b._ord(), b._us_of_day(), do._ord(), do._us_of_day())


def _settings(b, pref, extra=None):
    st = {"RELATIVE_BASE": b, "PREFER_DATES_FROM": pref, "TIMEZONE": "UTC"}
    st.update(extra or {})
    return st


FID = "C09-month-reset"


def _is_open(fid):
    from symx import runner
    return any(k["id"] == fid and k.get("status", "open") == "open" for k in runner.load_known())


def _with_known(prop_terms, do, e, b):
    """e: the date the property asks for (SDateTime).  While finding C09-month-reset is listed as open, results whose
    correct month differs from the reference month may also show the characterised wrong value: the correct
    year/day with the month reset to the reference month (December when that day does not exist there)."""
    right = z3.And(_zi(do.year) == _zi(e.year), _zi(do.month) == _zi(e.month), _zi(do.day) == _zi(e.day))
    if not _is_open(FID):
        return z3.And(right, *prop_terms), []
    region = _zi(e.month) != _zi(b.month)
    fits = _zi(e.day) <= dates.z_dim(_zi(e.year), _zi(b.month))
    wrong = z3.And(_zi(do.year) == _zi(e.year), _zi(do.month) == z3.If(fits, _zi(b.month), 12), _zi(do.day) == _zi(e.day))
    return z3.And(z3.If(region, z3.Or(right, wrong), right), *prop_terms), [(FID, z3.And(region, z3.Not(right)))]


def h_weekday(wd, pref, abbr=False):
    name = (C.EN_DAY3 if abbr else C.EN_DAYS)[wd].capitalize()

    def fn():
        b = C.sym_base("b", YMIN, YMAX)
        dd = C.api(name, languages=["en"], settings=_settings(b, pref))
        wit = C.base_witness(b)
        do = dd.date_obj
        if do is None:
            return C.outcome(False, wit, "none")
        wb = (b._ord() + 6) % 7
        if pref == "future":
            k = (wd - wb) % 7
            k = z3.If(k == 0, 7, k)
        elif pref == "past":
            k = (wb - wd) % 7
            k = -z3.If(k == 0, 7, k)
        else:
            k = -((wb - wd) % 7)
        e = dates.SDateTime(b.year, b.month, b.day, _trusted=True)._shift(dates.STimedelta(days=core.mkint(k)))
        ok, kn = _with_known([do._us_of_day() == 0, do.tzinfo is None], do, e, b)
        return C.outcome(ok, wit, "parsed", known=kn)
    return fn


FID_LD = "C09-time-only-local-date"


def _strict_time(pref, keep, uo, ur, b, same_day):
    """the property's clauses for a time-only string, (uo, ur) = the result as a UTC instant"""
    le = dates.z_lex_le(uo, ur, b._ord(), b._us_of_day())
    ge = dates.z_lex_le(b._ord(), b._us_of_day(), uo, ur)
    later_after = dates.z_lex_lt(b._ord(), b._us_of_day(), uo + 1, ur)
    earlier_before = dates.z_lex_lt(uo - 1, ur, b._ord(), b._us_of_day())
    if pref == "past":
        return z3.And(keep, le, later_after)
    if pref == "future":
        return z3.And(keep, ge, earlier_before)
    return z3.And(keep, same_day)


def h_time(pref, tz="UTC"):
    off = 0 if tz == "UTC" else _off_s(tz)

    def fn():
        from . import zones
        b = C.sym_base("b", YMIN, YMAX)
        t = C.time_fields("t", "HM")
        s = tmpl([("H", 2), ":", ("M", 2)], t)
        dd = C.api(s, languages=["en"], settings=_settings(b, pref, {"TIMEZONE": tz}))
        wit = dict(C.base_witness(b), tH=t["H"], tM=t["M"])
        do = dd.date_obj
        if do is None:
            return C.outcome(False, wit, "none")
        keep = z3.And(_zi(do.hour) == _zi(t["H"]), _zi(do.minute) == _zi(t["M"]), _zi(do.second) == 0,
                      _zi(do.microsecond) == 0, do.tzinfo is None)
        # the written time is wall-clock time in TIMEZONE; the reference instant is UTC
        uo, ur = zones._shift(do._ord(), do._us_of_day(), -off)
        lo, _lr = zones._shift(b._ord(), b._us_of_day(), off)            # the reference's calendar date in TIMEZONE
        strict = _strict_time(pref, keep, uo, ur, b, do._ord() == lo)
        # what the code does (candidate on the reference's UTC date, moved one day when on the wrong side): equals the
        # nearest occurrence whenever the reference's date in TIMEZONE is its UTC date
        ctod = z_tod_hm(t) - off * 1000000
        cc = z3.If(ctod < 0, -1, z3.If(ctod >= dates.K_DAY, 1, 0))
        co, cr = b._ord() + cc, ctod - cc * dates.K_DAY
        after = dates.z_lex_lt(b._ord(), b._us_of_day(), co, cr)
        before = dates.z_lex_lt(co, cr, b._ord(), b._us_of_day())
        k = z3.If(after, -1, 0) if pref == "past" else (z3.If(before, 1, 0) if pref == "future" else z3.IntVal(0))
        e = dates.SDateTime(b.year, b.month, b.day, _trusted=True)._shift(dates.STimedelta(days=core.mkint(k)))
        code_rule, kn = _with_known([keep], do, e, b)
        local_region = lo != b._ord()
        month_region = _zi(e.month) != _zi(b.month)
        if off != 0 and _is_open(FID_LD):
            ok = z3.And(code_rule, z3.Or(local_region, month_region, strict))
            kn = kn + [(FID_LD, z3.And(local_region, z3.Not(strict)))]
        elif _is_open(FID):
            ok = z3.And(code_rule, z3.Or(month_region, strict))
        else:
            ok = strict
        return C.outcome(ok, wit, "parsed", known=kn)
    return fn


def h_time_dst(pref, zone, y0=2021, y1=2021):
    """time-only string with a tz-database TIMEZONE that has transitions (pytz's utcoffset/localize run symbolically)"""
    from . import zones

    def fn():
        b = C.sym_base("b", y0, y1)
        t = C.time_fields("t", "HM")
        s = tmpl([("H", 2), ":", ("M", 2)], t)
        wit = dict(C.base_witness(b), tH=t["H"], tM=t["M"])
        tab = zones.table(zone, y0 - 1, y1 + 1)
        # only wall-clock times that exist exactly once on the reference's date and its neighbours (property's premise)
        r = z_tod_hm(t)
        for k in (-2, -1, 0, 1, 2):
            ok, _, _, _ = zones.z_local_to_utc(tab, b._ord() + k, r)
            core.assume(mkbool(ok))
        dd = C.api(s, languages=["en"], settings=_settings(b, pref, {"TIMEZONE": zone}))
        do = dd.date_obj
        if do is None:
            return C.outcome(False, wit, "none")
        keep = z3.And(_zi(do.hour) == _zi(t["H"]), _zi(do.minute) == _zi(t["M"]), _zi(do.second) == 0,
                      _zi(do.microsecond) == 0, do.tzinfo is None)
        _, uo, ur, _ = zones.z_local_to_utc(tab, do._ord(), do._us_of_day())
        _, lo_, lr_, _ = zones.z_local_to_utc(tab, do._ord() + 1, do._us_of_day())
        _, eo_, er_, _ = zones.z_local_to_utc(tab, do._ord() - 1, do._us_of_day())
        le = dates.z_lex_le(uo, ur, b._ord(), b._us_of_day())
        ge = dates.z_lex_le(b._ord(), b._us_of_day(), uo, ur)
        later_after = dates.z_lex_lt(b._ord(), b._us_of_day(), lo_, lr_)
        earlier_before = dates.z_lex_lt(eo_, er_, b._ord(), b._us_of_day())
        boff = zones.z_offset_at_utc(tab, b._ord(), b._us_of_day())
        blo, _ = zones._shift(b._ord(), b._us_of_day(), boff)           # the reference's calendar date in the zone
        if pref == "past":
            strict = z3.And(keep, le, later_after)
        elif pref == "future":
            strict = z3.And(keep, ge, earlier_before)
        else:
            strict = z3.And(keep, do._ord() == blo)
        near = z3.And(keep, do._ord() - b._ord() >= -1, do._ord() - b._ord() <= 1)
        local_region = blo != b._ord()
        month_region = z3.Or(_zi(b.day) == 1, _zi(b.day) == dates.z_dim(_zi(b.year), _zi(b.month)))
        kn = []
        ok = strict
        if _is_open(FID_LD):
            ok = z3.Or(ok, z3.And(local_region, near))
            kn.append((FID_LD, z3.And(local_region, z3.Not(strict))))
        if _is_open(FID):
            ok = z3.Or(ok, z3.And(month_region, keep, z3.Or(_zi(do.month) == _zi(b.month), _zi(do.month) == 12)))
        return C.outcome(ok, wit, "parsed", known=kn)
    return fn


def h_time_gap(pref, zone, y0=2021, y1=2021):
    """time-only string naming a wall-clock time that does NOT exist (spring-forward gap) on the reference's date or a
    neighbouring one in the TIMEZONE: which day is chosen is not specified there, but the written time of day is kept"""
    from . import zones

    def fn():
        b = C.sym_base("b", y0, y1)
        t = C.time_fields("t", "HM")
        s = tmpl([("H", 2), ":", ("M", 2)], t)
        wit = dict(C.base_witness(b), tH=t["H"], tM=t["M"])
        tab = zones.table(zone, y0 - 1, y1 + 1)
        r = z_tod_hm(t)
        core.assume(mkbool(z3.Or(*[zones.z_local_count(tab, b._ord() + k, r, 0) for k in (-1, 0, 1)])))
        dd = C.api(s, languages=["en"], settings=_settings(b, pref, {"TIMEZONE": zone}))
        do = dd.date_obj
        if do is None:
            return C.outcome(False, wit, "none")
        keep = z3.And(_zi(do.hour) == _zi(t["H"]), _zi(do.minute) == _zi(t["M"]), _zi(do.second) == 0,
                      _zi(do.microsecond) == 0, do.tzinfo is None)
        return C.outcome(keep, wit, "parsed")
    return fn


def z_tod_hm(t):
    return (_zi(t["H"]) * 60 + _zi(t["M"])) * 60 * 1000000


def _off_s(tz):
    import re
    m = re.fullmatch(r"([+-])(\d\d)(\d\d)", tz)
    return (1 if m.group(1) == "+" else -1) * (int(m.group(2)) * 3600 + int(m.group(3)) * 60)


def h_month(mi, pref):
    name = C.EN_MONTHS[mi - 1].capitalize()

    def fn():
        b = C.sym_base("b", YMIN, YMAX)
        dd = C.api(name, languages=["en"], settings=_settings(b, pref))
        wit = C.base_witness(b)
        do = dd.date_obj
        if do is None:
            return C.outcome(False, wit, "none")
        keep = z3.And(_zi(do.month) == mi, do.tzinfo is None, dd.period == "month")
        if pref == "past":
            ok = z3.And(keep, _le(do, b))
        elif pref == "future":
            ok = z3.And(keep, _ge(do, b))
        else:
            ok = z3.And(keep, _zi(do.year) == _zi(b.year))
        return C.outcome(ok, wit, "parsed")
    return fn


def h_daymonth(mi, pref, width, with_time=False):
    """'DD Month' or, with_time, 'DD Month HH:MM' (the year is open, the clock time is stated: on the reference's own
    day and month the answer depends on the time of day)"""
    name = C.EN_MONTHS[mi - 1].capitalize()

    def fn():
        b = C.sym_base("b", YMIN, YMAX)
        dmax = 29 if mi == 2 else _cal.monthrange(2001, mi)[1]
        d = C.field("d", 1 if width == 2 else 1, min(dmax, 9 if width == 1 else 31))
        if pref == "current_period" and mi == 2:
            core.assume(mkbool(z3.Or(_zi(d) <= 28, dates.z_isleap(_zi(b.year)))))
        if with_time:
            t = C.time_fields("t", "HM")
            s = tmpl([("d", width), " " + name + " ", ("H", 2), ":", ("M", 2)], {"d": d, "H": t["H"], "M": t["M"]})
        else:
            s = tmpl([("d", width), " " + name], {"d": d})
        dd = C.api(s, languages=["en"], settings=_settings(b, pref))
        wit = dict(C.base_witness(b), d=d)
        if with_time:
            wit.update(tH=t["H"], tM=t["M"])
        do = dd.date_obj
        if do is None:
            return C.outcome(False, wit, "none")
        tod = (_zi(t["H"]) * 3600 + _zi(t["M"]) * 60) * 1000000 if with_time else 0
        keep = z3.And(_zi(do.month) == mi, _zi(do.day) == _zi(d), do._us_of_day() == tod, do.tzinfo is None,
                      dd.period == "day")
        if pref == "past":
            ok = z3.And(keep, _le(do, b))
        elif pref == "future":
            ok = z3.And(keep, _ge(do, b))
        else:
            ok = z3.And(keep, _zi(do.year) == _zi(b.year))
        return C.outcome(ok, wit, "parsed")
    return fn


def h_yy(kind, pref, mi=None):
    """two-digit year: 'D Month YY' (mi given) or numeric 'MM/DD/YY'"""
    def fn():
        b = C.sym_base("b", 1970, 2067)
        yy = C.field("yy", 0, 99)
        if kind == "named":
            dmax = 28 if mi == 2 else _cal.monthrange(2001, mi)[1]
            d = C.field("d", 1, dmax)
            m = mi
            s = tmpl([("d", 2), " " + C.EN_MONTHS[mi - 1].capitalize() + " ", ("yy", 2)], {"d": d, "yy": yy})
        else:
            m = C.field("m", 1, 12)
            d = C.field("d", 1, 31)
            core.assume(mkbool(_zi(d) <= dates.z_dim(z3.IntVal(2001), _zi(m))))   # Feb 29 excluded (see ASSUMPTIONS)
            s = tmpl([("m", 2), "/", ("d", 2), "/", ("yy", 2)], {"d": d, "m": m, "yy": yy})
        dd = C.api(s, languages=["en"], settings=_settings(b, pref))
        wit = dict(C.base_witness(b), d=d, yy=yy)
        if not isinstance(m, int):
            wit["m"] = m
        do = dd.date_obj
        if do is None:
            return C.outcome(False, wit, "none")
        keep = z3.And(_zi(do.month) == _zi(m), _zi(do.day) == _zi(d), _zi(do.year) % 100 == _zi(yy),
                      do._us_of_day() == 0, do.tzinfo is None)
        if pref == "past":
            ok = z3.And(keep, _le(do, b))
        elif pref == "future":
            ok = z3.And(keep, _ge(do, b))
        else:
            ok = z3.And(keep, _zi(do.year) >= 1969, _zi(do.year) <= 2068)
        return C.outcome(ok, wit, "parsed")
    return fn


# ------------------------------------------------------------------------------------------------ task lists
def tasks(tier, seed):
    out = []
    quick = tier == "quick"

    def add(name, fn, args, budget=240):
        out.append({"name": name, "fn": fn, "args": args, "budget_s": budget if quick else budget * 5, "max_paths": 20000})
    wds = [(seed + i * 2) % 7 for i in range(3)] if quick else range(7)
    for wd in sorted(set(wds)):
        for p in PREFS:
            add("weekday:%s:%s" % (C.EN_DAYS[wd], p), "h_weekday", {"wd": wd, "pref": p})
    if not quick:
        for wd in range(7):
            add("weekday3:%s:future" % C.EN_DAY3[wd], "h_weekday", {"wd": wd, "pref": "future", "abbr": True})
    for p in PREFS:
        add("time:%s:UTC" % p, "h_time", {"pref": p})
    for tz in ([["+0530", "-0330"], ["+1245", "-0930"]][seed % 2] if quick else ["+0530", "-0800", "+1245", "-0330", "-0930", "-0230"]):
        for p in ("past", "future"):
            add("time:%s:%s" % (p, tz), "h_time", {"pref": p, "tz": tz})
    from . import zones
    dz = [z for z in ["America/New_York", "Europe/Paris", "Asia/Kolkata", "Australia/Lord_Howe"] if zones.usable(z, 2020, 2022)]
    for j, z in enumerate(dz if not quick else dz[seed % max(1, len(dz)):][:1]):
        for p in (("past", "future") if quick else PREFS):
            add("time-dst:%s:%s" % (p, z), "h_time_dst", {"pref": p, "zone": z}, 240)
    for j, z in enumerate([z for z in dz if z != "Asia/Kolkata"] if not quick else [z for z in dz if z != "Asia/Kolkata"][(seed + 1) % 3:][:1]):
        for p in (("past", "future") if not quick else (("past", "future")[seed % 2],)):
            add("time-gap:%s:%s" % (p, z), "h_time_gap", {"pref": p, "zone": z}, 200)
    months = sorted({2, seed % 12 + 1, (seed + 7) % 12 + 1}) if quick else range(1, 13)
    for mi in months:
        for p in PREFS:
            add("month:%02d:%s" % (mi, p), "h_month", {"mi": mi, "pref": p})
            add("daymonth:%02d:%s" % (mi, p), "h_daymonth", {"mi": mi, "pref": p, "width": 2})
            if p != "current_period":
                add("daymonth-time:%02d:%s" % (mi, p), "h_daymonth", {"mi": mi, "pref": p, "width": 2, "with_time": True})
    if not quick:
        for p in PREFS:
            add("daymonth1:07:%s" % p, "h_daymonth", {"mi": 7, "pref": p, "width": 1})
    for p in PREFS:
        add("yy:numeric:%s" % p, "h_yy", {"kind": "numeric", "pref": p})
        for mi in ([seed % 12 + 1] if quick else [1, 2, 6, 12]):
            add("yy:named:%02d:%s" % (mi, p), "h_yy", {"kind": "named", "pref": p, "mi": mi})
    return out


# ------------------------------------------------------------------------------------------------ replay side
def build_spec(task, viol):
    w = C.ints(viol["witness"])
    a = task["args"]
    fn = task["fn"]
    st = {"PREFER_DATES_FROM": a["pref"], "TIMEZONE": a.get("tz", "UTC"), "RELATIVE_BASE": C.base_from_witness(w)}
    if fn == "h_weekday":
        s = (C.EN_DAY3 if a.get("abbr") else C.EN_DAYS)[a["wd"]].capitalize()
    elif fn in ("h_time", "h_time_dst", "h_time_gap"):
        s = "%02d:%02d" % (w["tH"], w["tM"])
        if fn in ("h_time_dst", "h_time_gap"):
            st["TIMEZONE"] = a["zone"]
    elif fn == "h_month":
        s = C.EN_MONTHS[a["mi"] - 1].capitalize()
    elif fn == "h_daymonth":
        s = "%0*d %s" % (a["width"], w["d"], C.EN_MONTHS[a["mi"] - 1].capitalize())
        if a.get("with_time"):
            s += " %02d:%02d" % (w["tH"], w["tM"])
    elif a["kind"] == "named":
        s = "%02d %s %02d" % (w["d"], C.EN_MONTHS[a["mi"] - 1].capitalize(), w["yy"])
    else:
        s = "%02d/%02d/%02d" % (w["m"], w["d"], w["yy"])
    return {"task": task["name"], "fn": fn, "args": a, "witness": w, "clock": None,
            "call": {"string": s, "languages": ["en"], "settings": st}}


def native_check(spec):
    from symx import native
    res = native.call_api(spec["call"])
    a, w, fn = spec["args"], spec["witness"], spec["fn"]
    b = _dt.datetime(*spec["call"]["settings"]["RELATIVE_BASE"])
    pref = a["pref"]
    desc = "parse(%r, RELATIVE_BASE=%s, PREFER_DATES_FROM=%r, TIMEZONE=%r)" % (
        spec["call"]["string"], b.isoformat(), pref, spec["call"]["settings"]["TIMEZONE"])
    if "exception" in res:
        return {"violates": True, "detail": "%s raised %s" % (desc, res["exception"]), "kind": "exception"}
    got = res["date_obj"]
    if got is None or got.tzinfo is not None:
        return {"violates": True, "detail": "%s -> %r" % (desc, got), "kind": "none"}
    got = _dt.datetime(*got.timetuple()[:6], got.microsecond)
    out = {"got": got.isoformat(), "base": b.isoformat()}
    if fn == "h_weekday":
        wd = a["wd"]
        if pref == "future":
            k = (wd - b.weekday()) % 7 or 7
            exp = _dt.datetime.combine(b.date() + _dt.timedelta(days=k), _dt.time())
        elif pref == "past":
            k = (b.weekday() - wd) % 7 or 7
            exp = _dt.datetime.combine(b.date() - _dt.timedelta(days=k), _dt.time())
        else:
            exp = _dt.datetime.combine(b.date() - _dt.timedelta(days=(b.weekday() - wd) % 7), _dt.time())
        bad = got != exp
        out.update(expected=exp.isoformat())
    elif fn == "h_time_gap":
        bad = (got.hour, got.minute, got.second, got.microsecond) != (w["tH"], w["tM"], 0, 0) or got.tzinfo is not None
        out.update(expected="(the written time of day %02d:%02d, naive)" % (w["tH"], w["tM"]))
    elif fn == "h_time_dst":
        from . import zones
        tab = zones.table(a["zone"], a.get("y0", 2021) - 1, a.get("y1", 2021) + 1)
        keep = (got.hour, got.minute, got.second, got.microsecond) == (w["tH"], w["tM"], 0, 0)
        day = _dt.timedelta(days=1)
        ok0, u, _ = zones.local_to_utc_native(tab, got)
        ok1, up, _ = zones.local_to_utc_native(tab, got + day)
        ok2, um, _ = zones.local_to_utc_native(tab, got - day)
        if not (ok0 and ok1 and ok2):
            return {"violates": False, "unrealizable": True, "detail": "%s: gap/ambiguous wall clock near the result" % desc}
        if pref == "past":
            bad = not (keep and u <= b and up > b)
        elif pref == "future":
            bad = not (keep and u >= b and um < b)
        else:
            bad = not (keep and got.date() == b.date())
        exp_month_reset = (pref == "past" and b.day == 1) or (pref == "future" and (b + day).month != b.month)
        out.update(expected="(nearest %s occurrence of %02d:%02d %s)" % (pref, w["tH"], w["tM"], a["zone"]))
        if bad and exp_month_reset and keep and got.month in (b.month, 12):
            out.update(month_reset=True)
        boff = zones.offset_at_utc_native(tab, b)
        if bad and keep and (b + _dt.timedelta(seconds=boff)).date() != b.date() and abs((got.date() - b.date()).days) <= 1:
            out.update(local_date=True)
    elif fn == "h_time":
        off = _dt.timedelta(seconds=0 if a.get("tz", "UTC") == "UTC" else _off_s(a["tz"]))
        keep = (got.hour, got.minute, got.second, got.microsecond) == (w["tH"], w["tM"], 0, 0)
        u = got - off
        day = _dt.timedelta(days=1)
        if pref == "past":
            bad = not (keep and u <= b and u + day > b)
        elif pref == "future":
            bad = not (keep and u >= b and u - day < b)
        else:
            bad = not (keep and got.date() == b.date())
        # what the property asks for, for the known-finding classifier
        t = _dt.time(w["tH"], w["tM"])
        cand = _dt.datetime.combine(b.date(), t)
        if pref == "past" and cand - off > b:
            cand -= day
        if pref == "future" and cand - off < b:
            cand += day
        out.update(expected=cand.isoformat())
        if bad and keep and (b + off).date() != b.date() and got == cand:
            out.update(local_date=True)
        if pref == "current_period":
            bad = not (keep and got.date() == (b + off).date())
            if bad and keep and got.date() == b.date():
                out.update(local_date=True)
    elif fn == "h_month":
        keep = got.month == a["mi"] and res["period"] == "month"
        bad = not (keep and (got <= b if pref == "past" else got >= b if pref == "future" else got.year == b.year))
    elif fn == "h_daymonth":
        keep = (got.month, got.day, got.hour, got.minute, got.second) == (
            a["mi"], w["d"], w.get("tH", 0) if a.get("with_time") else 0, w.get("tM", 0) if a.get("with_time") else 0, 0) \
            and res["period"] == "day"
        bad = not (keep and (got <= b if pref == "past" else got >= b if pref == "future" else got.year == b.year))
    else:
        m = a["mi"] if a["kind"] == "named" else w["m"]
        keep = (got.month, got.day, got.year % 100, got.hour, got.minute) == (m, w["d"], w["yy"], 0, 0)
        bad = not (keep and (got <= b if pref == "past" else got >= b if pref == "future" else 1969 <= got.year <= 2068))
    out.update(violates=bad, detail="%s -> %s%s" % (desc, got.isoformat(),
                                                    (", expected %s" % out["expected"]) if "expected" in out else ""))
    return out


def classify_known(spec, verdict, known):
    """weekday-only / time-only strings whose correct answer lies in another month than the reference: the code resets
    the month to the reference month (December if that day does not exist) — finding C09-month-reset"""
    ids0 = {k["id"] for k in known}
    if verdict.get("local_date") and FID_LD in ids0:
        return FID_LD
    if spec["fn"] == "h_time_gap":
        return None
    if spec["fn"] == "h_time_dst":
        return "C09-month-reset" if verdict.get("month_reset") and "C09-month-reset" in ids0 else None
    if spec["fn"] not in ("h_weekday", "h_time") or "expected" not in verdict or "got" not in verdict:
        return None
    ids = {k["id"] for k in known}
    if "C09-month-reset" not in ids:
        return None
    exp = _dt.datetime.fromisoformat(verdict["expected"])
    got = _dt.datetime.fromisoformat(verdict["got"])
    b = _dt.datetime.fromisoformat(verdict["base"])
    if exp.month == b.month:
        return None
    try:
        wrong = exp.replace(month=b.month)
    except ValueError:
        wrong = exp.replace(month=12)
    return "C09-month-reset" if got == wrong else None
