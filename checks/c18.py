"""C18 — whitespace noise and the digit script never change what a string parses to (symx: two API runs per path)."""
import datetime as _dt
import unicodedata

import z3

from symx import core, dates
from symx.core import _zi, mkbool
from symx.strings import TStr, coerce, wrap
from symx.tmpl import tmpl, render
from . import common as C

ID = "C18"
ENCODED = ["dateparser.date.sanitize_date / sanitize_spaces (all RE_* patterns)", "dateparser.date.DateDataParser.get_date_data "
           "(called twice per path: plain spelling and rewritten spelling, same symbolic digits)",
           "dateparser.date.get_date_from_timestamp / parse_with_formats pre-check", "dateparser.languages.locale.Locale."
           "_translate_numerals/translate/is_applicable", "dateparser.utils.strip_braces/normalize_unicode",
           "dateparser.date_parser.DateParser.parse", "dateparser.parser.*", "dateparser.freshness_date_parser.*"]
ASSUMPTIONS = [
    "whitespace: each rewriting of the fixed family (leading/trailing pad, doubled spaces, tab, newline, NBSP, mixed runs, "
    "trailing colon, and pad/colon combinations) is applied to the literal part of a template; the digits stay symbolic and "
    "are shared by both spellings; templates in en/fr/ru/de; the multilingual corpus is outside",
    "digit script: every Unicode block of decimal digits (category Nd, enumerated from unicodedata each run) is substituted "
    "for the ASCII digits of a template; the digit VALUES are symbolic and shared by both spellings",
    "obligation: both parses are None, or equal field-wise incl. tz awareness/offset, with equal period",
    "date theory (symx.dates) stands for CPython datetime/calendar; symbolic regex stands for re/regex on templates",
]

TEMPLATES = {
    "iso_dt": ([("Y", 4), "-", ("m", 2), "-", ("d", 2), " ", ("H", 2), ":", ("M", 2)], ["en"]),
    "dMonthY": ([("d", 2), " March ", ("Y", 4)], ["en"]),
    "MonthdY_t": (["March ", ("d", 2), ", ", ("Y", 4), " ", ("H", 2), ":", ("M", 2)], ["en"]),
    "days_ago": ([("n", 2), " days ago"], ["en"]),
    "in_hours": (["in ", ("n", 2), " hours"], ["en"]),
    "slash": ([("m", 2), "/", ("d", 2), "/", ("Y", 4)], ["en"]),
    "dotted": ([("d", 2), ".", ("m", 2), ".", ("Y", 4)], ["de"]),
    "dotted_t": ([("d", 2), ".", ("m", 2), ".", ("Y", 4), " ", ("H", 2), ".", ("M", 2)], ["de"]),
    "rfc": (["Tue, ", ("d", 2), " Mar ", ("Y", 4), " ", ("H", 2), ":", ("M", 2), ":", ("S", 2)], ["en"]),
    "tz": ([("d", 2), " March ", ("Y", 4), " ", ("H", 2), ":", ("M", 2), " +0530"], ["en"]),
    "fr": (["le ", ("d", 2), " septembre ", ("Y", 4), " à ", ("H", 2), "h", ("M", 2)], ["fr"]),
    "ru": ([("d", 2), " октября ", ("Y", 4), " г. в ", ("H", 2), ":", ("M", 2)], ["ru"]),
    "time": ([("H", 2), ":", ("M", 2)], ["en"]),
    "epoch": ([("e", 10)], ["en"]),
    "ordinal": ([("d", 2), "th of March ", ("Y", 4)], ["en"]),
    "mon_time": (["Mon ", ("H", 2), ":", ("M", 2), " next mon"], ["en"]),
    "ends_on": ([("H", 2), ":", ("M", 2), " mon"], ["en"]),
    "tl_kahapon": (["kahapon"], ["tl"]),
    "sv_imorgon": (["imorgon"], ["sv"]),
    "de_long": ([("d", 2), ". Oktober ", ("Y", 4), ", ", ("H", 2), ":", ("M", 2), " Uhr"], ["de"]),
    # shapes that sanitize_date rewrites BEFORE it normalises whitespace (Croatian "d. m. yyyy. u", Russian "г.")
    "hr_style_en": ([("d", 2), ". ", ("m", 2), ". ", ("Y", 4), ". u ", ("H", 2), ":", ("M", 2)], ["en"]),
    "hr_style_hr": ([("d", 2), ". ", ("m", 2), ". ", ("Y", 4), ". u ", ("H", 2), ":", ("M", 2)], ["hr"]),
    "hr_date_dot": ([("d", 2), ". ", ("m", 2), ". ", ("Y", 4), "."], ["hr"]),
    "ru_num_g": ([("d", 2), ".", ("m", 2), ".", ("Y", 4), " г."], ["en", "ru"]),
    "ru_year_g": ([("Y", 4), " г."], ["en", "ru"]),
    "ru_g_end": ([("d", 2), " мая ", ("Y", 4), " г."], ["ru"]),
}
_RNG = {"Y": (1000, 9999), "m": (1, 12), "d": (1, 28), "H": (0, 23), "M": (0, 59), "S": (0, 59), "n": (0, 99), "e": (10 ** 9, 10 ** 10 - 1)}

REWRITES = ["lead", "trail", "pad", "double", "triple", "tab", "newline", "nbsp", "mixed", "colon", "pad+colon", "colon+trail",
            "tab-lead", "nbsp-trail"]


def rewrite(parts, how):
    """apply a whitespace rewriting to the literal pieces of a template"""
    rep = {"double": "  ", "triple": "   ", "tab": "\t", "newline": "\n", "nbsp": "\xa0", "mixed": " \t \xa0"}
    out = []
    for p in parts:
        if isinstance(p, str) and how in rep:
            out.append(p.replace(" ", rep[how]))
        else:
            out.append(p)
    if how in ("lead", "pad", "pad+colon"):
        out = ["  "] + out
    if how == "tab-lead":
        out = ["\t "] + out
    if how in ("colon", "colon+trail"):
        out = out + [":"]
    if how in ("trail", "pad", "colon+trail"):
        out = out + ["  "]
    if how == "nbsp-trail":
        out = out + ["\xa0"]
    if how == "pad+colon":
        out = out + ["  :"] if False else out + [":", "  "]
    return out


def _same(x, y):
    a, b = x.date_obj, y.date_obj
    if a is None or b is None:
        return a is None and b is None
    if (a.tzinfo is None) != (b.tzinfo is None):
        return False
    if a.tzinfo is not None and a.tzinfo.utcoffset(None) != b.tzinfo.utcoffset(None):
        return False
    return z3.And(z3.And(*[_zi(getattr(a, f)) == _zi(getattr(b, f)) for f in dates._FIELDS]), x.period == y.period)


def _fields(parts):
    v = {}
    for p in parts:
        if not isinstance(p, str):
            v[p[0]] = C.field(p[0], *_RNG[p[0]])
    return v


def h_ws(name, how, with_base=True):
    parts, langs = TEMPLATES[name]

    def fn():
        v = _fields(parts)
        st = {}
        wit = dict(v)
        if with_base:
            b = C.sym_base("b", 1000, 9000)
            st["RELATIVE_BASE"] = b
            wit.update(C.base_witness(b))
        s1 = tmpl(parts, v)
        s2 = tmpl(rewrite(parts, how), v)
        x = C.api(s1, languages=langs, settings=st or None)
        y = C.api(s2, languages=langs, settings=st or None)
        return C.outcome(_same(x, y), wit, "none" if x.date_obj is None else "value")
    return fn


def nd_blocks():
    """code points of the zero of every decimal-digit block"""
    out = []
    for cp in range(0x110000):
        ch = chr(cp)
        if unicodedata.category(ch) == "Nd" and unicodedata.decimal(ch) == 0:
            if all(unicodedata.category(chr(cp + k)) == "Nd" and unicodedata.decimal(chr(cp + k)) == k for k in range(10)):
                out.append(cp)
    return [b for b in out if b != 48]


def h_script(name, base):
    parts, langs = TEMPLATES[name]

    def fn():
        v = _fields(parts)
        b = C.sym_base("b", 1000, 9000)
        st = {"RELATIVE_BASE": b}
        wit = dict(v)
        wit.update(C.base_witness(b))
        s1 = tmpl(parts, v)
        # literal digits of the template (e.g. '+0530') are rewritten as well
        nparts = [("".join(chr(base + int(c)) if c.isdigit() and c.isascii() else c for c in p) if isinstance(p, str) else p)
                  for p in parts]
        s2 = tmpl(nparts, v, base=base)
        x = C.api(s1, languages=langs, settings=st)
        y = C.api(s2, languages=langs, settings=st)
        return C.outcome(_same(x, y), wit, "none" if x.date_obj is None else "value")
    return fn


def tasks(tier, seed):
    out = []
    quick = tier == "quick"

    def add(name, fn, args, budget=150):
        out.append({"name": name, "fn": fn, "args": args, "budget_s": budget if quick else budget * 6, "max_paths": 5000})
    names = sorted(TEMPLATES)
    for i, nm in enumerate(names):
        hows = REWRITES if not quick else [REWRITES[(seed + i + 3 * j) % len(REWRITES)] for j in range(3)] + ["colon+trail"]
        if quick and nm.startswith(("hr_", "ru_")):
            # shapes rewritten BEFORE whitespace is normalised: every rewriting of the inner whitespace, in every run
            hows = hows + ["double", "nbsp", "mixed", "tab"]
        for how in sorted(set(hows)):
            add("ws:%s:%s" % (nm, how), "h_ws", {"name": nm, "how": how})
    blocks = nd_blocks()
    script_templates = ["dotted", "iso_dt", "days_ago", "epoch", "dMonthY", "tz", "dotted_t", "slash", "ru", "time"]
    for j, base in enumerate(blocks):
        ts = script_templates if not quick else [script_templates[(seed + j) % len(script_templates)], "dotted"]
        if quick and (j + seed) % 3:
            ts = ts[:1]
        for nm in sorted(set(ts)):
            add("script:U+%04X:%s" % (base, nm), "h_script", {"name": nm, "base": base})
    return out


def build_spec(task, viol):
    w = C.ints(viol["witness"])
    a = task["args"]
    parts, langs = TEMPLATES[a["name"]]
    st = {}
    b = C.base_from_witness(w)
    if b:
        st["RELATIVE_BASE"] = b
    s1 = render(parts, w)
    if task["fn"] == "h_ws":
        s2 = render(rewrite(parts, a["how"]), w)
    else:
        base = a["base"]
        nparts = [("".join(chr(base + int(c)) if c.isdigit() and c.isascii() else c for c in p) if isinstance(p, str) else p)
                  for p in parts]
        s2 = render(nparts, w, base=base)
    return {"task": task["name"], "fn": task["fn"], "args": a, "witness": w, "s1": s1, "s2": s2, "languages": langs, "settings": st}


def native_check(spec):
    from symx import native
    x = native.call_api({"string": spec["s1"], "languages": spec["languages"], "settings": spec["settings"]}, [2020, 5, 17, 10, 11, 12, 0])
    y = native.call_api({"string": spec["s2"], "languages": spec["languages"], "settings": spec["settings"]}, [2020, 5, 17, 10, 11, 12, 0])
    desc = "parse(%r) -> %r ; parse(%r) -> %r (languages=%r, settings=%r)" % (
        spec["s1"], x.get("date_obj", x.get("exception")), spec["s2"], y.get("date_obj", y.get("exception")), spec["languages"], spec["settings"])
    if "exception" in x or "exception" in y:
        return {"violates": True, "detail": desc}
    return {"violates": x["date_obj"] != y["date_obj"] or x["period"] != y["period"], "detail": desc}


def classify_known(spec, verdict, known):
    return None
