"""C05 — every locale's month and weekday names resolve to their meaning (symx, public API entry)."""
import datetime as _dt
import json
import os

import z3

from symx import core, dates, runner
from symx.core import _zi, mkbool
from symx.tmpl import tmpl, render
from . import common as C

ID = "C05"
FID = "C05-vocabulary-conflicts"
ENCODED = ["dateparser.date.DateDataParser.get_date_data", "dateparser.languages.locale.Locale.translate/is_applicable/"
           "_simplify/_translate_numerals", "dateparser.languages.dictionary.Dictionary/NormalizedDictionary (construction, "
           "split, are_tokens_valid)", "dateparser.languages.loader.LocaleDataLoader + Locale.__init__ (locale_specific overlay)",
           "dateparser.utils.normalize_unicode / combine_dicts", "dateparser.parser._parser.* (incl. weekday-only resolution)"]
ASSUMPTIONS = [
    "the vocabulary is ENUMERATED (a finite table read from dateparser/data/date_translation_data/*.py with ast on every "
    "run): a name is visited if it is listed under exactly one meaning among months, weekdays, unit/marker words, skip, "
    "pertain and relative-type phrases of that language (with the locale's overlay applied), contains no digit; the solver "
    "quantifies, per name, over the day number (1-28, both written widths), the year (1000-9999) and, for weekday names, "
    "the reference instant (day of month 8-24 as the property states, any month/year 5-9995)",
    "quick tier: a seed-rotated slice of the languages + all regional overlays of the slice + every name whose "
    "accent-stripped form collides with another vocabulary word + every name containing a format character (ZWNJ/ZWJ) or "
    "bracket + 1/12 of the names with other punctuation + words re-defined by an overlay + every name listed in "
    "the known finding; thorough tier: all languages and locales, NORMALIZE on and off",
    "while finding C05-vocabulary-conflicts is open, the listed (locale, name) pairs are expected to fail; any other "
    "failing name is a violation, and a listed name that no longer fails is simply not reported",
]


def names_of(lang, locale=None):
    info = C.combined_info(lang, locale)
    out = []
    for w, ms in sorted(C.meanings(info).items()):
        if len(ms) != 1:
            continue
        kind, val = list(ms)[0]
        if kind not in ("month", "weekday") or any(ch.isdigit() for ch in w) or not w.strip():
            continue
        out.append((w, kind, val))
    return out


def overlay_names(lang, locale):
    """names the locale's overlay adds to the language's lists"""
    base = {w for w, _, _ in names_of(lang)}
    return [(w, k, v) for w, k, v in names_of(lang, locale) if w not in base]


def overlay_accent_twins(lang, locale):
    """names the overlay ADDS whose accent-stripped form equals that of a word the locale inherits: whatever merges the
    overlay must keep both spellings (they differ to a reader, and with NORMALIZE off to the library)"""
    base = {_strip(w) for w in C.meanings(C.combined_info(lang))}
    return [(w, k, v) for w, k, v in overlay_names(lang, locale) if _strip(w) in base]


def h_month(lang, locale, name, month, width, normalize=True):
    def fn():
        v = {"d": C.field("d", 1, 9 if width == 1 else 28), "Y": C.field("Y", 1000, 9999)}
        s = tmpl([("d", width), " " + name + " ", ("Y", 4)], v)
        st = {} if normalize else {"NORMALIZE": False}
        dd = C.api(s, languages=None if locale else [lang], locales=[locale] if locale else None, settings=st or None)
        do = dd.date_obj
        if do is None:
            return C.outcome(False, dict(v), "none")
        return C.outcome(z3.And(C.dt_is(do, v["Y"], month, v["d"]), dd.period == "day"), dict(v), "parsed")
    return fn


def h_weekday(lang, locale, name, wd, normalize=True):
    def fn():
        b = C.sym_base("b", 5, 9995)
        core.assume(mkbool(z3.And(_zi(b.day) >= 8, _zi(b.day) <= 24)))
        st = {"RELATIVE_BASE": b}
        if not normalize:
            st["NORMALIZE"] = False
        dd = C.api(name, languages=None if locale else [lang], locales=[locale] if locale else None, settings=st)
        wit = C.base_witness(b)
        do = dd.date_obj
        if do is None:
            return C.outcome(False, wit, "none")
        wb = (b._ord() + 6) % 7
        exp = b._ord() - (wb - wd) % 7
        return C.outcome(z3.And(do._ord() == exp, do._us_of_day() == 0, do.tzinfo is None), wit, "parsed")
    return fn


def overlay_conflicts():
    """(lang, locale, word, base meaning): words a regional overlay re-defines while the base language lists them with a
    single, different meaning — loading the regional locale first must not change the base language"""
    order, locd = C.languages_index()
    out = []
    for lang in order:
        base = C.meanings(C.language_info(lang))
        for loc in locd.get(lang, []):
            over = C.language_info(lang).get("locale_specific", {}).get(loc, {})
            for k, v in over.items():
                if isinstance(v, list):
                    for w in v:
                        bm = base.get(w.lower())
                        if bm and len(bm) == 1 and C.meanings(C.combined_info(lang, loc)).get(w.lower()) != bm:
                            kind, val = list(bm)[0]
                            if kind in ("month", "weekday"):
                                out.append((lang, loc, w.lower(), kind, val))
    return out


def h_after_overlay(lang, locale, name, kind, val):
    """the regional locale is loaded (and used) first, then the base language must still give the base meaning"""
    def fn():
        import importlib
        import sys
        n = C.ns()
        n.LO.LocaleDataLoader._loaded_languages.clear()
        n.LO.LocaleDataLoader._loaded_locales.clear()
        n.D.DateDataParser.locale_loader = None
        mod = sys.modules.get("dateparser.data.date_translation_data." + lang)
        if mod is not None:
            importlib.reload(mod)
        C.api("12/10/2015", locales=[locale])
        inner = (h_month(lang, None, name, val, 2) if kind == "month" else h_weekday(lang, None, name, val))
        return inner()
    return fn


def _strip(s):
    import unicodedata
    return "".join(c for c in unicodedata.normalize("NFKD", s) if unicodedata.category(c) != "Mn")


def collision_names(lang):
    """single-meaning month/weekday names whose accent-stripped form coincides with that of another vocabulary word of a
    different meaning: where the normalised dictionary has to pick a winner"""
    info = C.combined_info(lang)
    ms = C.meanings(info)
    by_norm = {}
    for w, m in ms.items():
        by_norm.setdefault(_strip(w), []).append((w, m))
    out = []
    for w, kind, val in names_of(lang):
        others = [(w2, m2) for w2, m2 in by_norm.get(_strip(w), []) if w2 != w and m2 != {(kind, val)}]
        if others:
            out.append((w, kind, val))
    return out


def _known_pairs():
    for k in runner.load_known():
        if k["id"] == FID and k.get("status", "open") == "open":
            return {(e["locale"], e["name"]) for e in k.get("entries", [])}
    return set()


def tasks(tier, seed):
    out = []
    quick = tier == "quick"
    order, locd = C.languages_index()
    known = _known_pairs()
    tags = set()

    def add(lang, locale, w, kind, val, normalize=True):
        code = locale or lang
        tag = "%s:%s:%s%s" % (code, kind, w, "" if normalize else ":nonorm")
        if tag in tags:
            return
        tags.add(tag)
        if kind == "month":
            widths = [2] if quick and (code, w) not in known else [1, 2]
            for wd_ in widths:
                out.append({"name": tag + ":w%d" % wd_, "fn": "h_month", "budget_s": 60 if quick else 300, "max_paths": 2000,
                            "args": {"lang": lang, "locale": locale, "name": w, "month": val, "width": wd_, "normalize": normalize}})
        else:
            out.append({"name": tag, "fn": "h_weekday", "budget_s": 60 if quick else 300, "max_paths": 2000,
                        "args": {"lang": lang, "locale": locale, "name": w, "wd": val, "normalize": normalize}})
    langs = list(order)
    if quick:
        k = 12
        start = (seed * k) % len(langs)
        langs = [langs[(start + j) % len(langs)] for j in range(k)]
    visited = set()
    for lang in langs:
        for w, kind, val in names_of(lang):
            add(lang, None, w, kind, val)
            visited.add((lang, w))
            if not quick:
                add(lang, None, w, kind, val, normalize=False)
        for loc in locd.get(lang, []):
            for w, kind, val in overlay_names(lang, loc):
                add(lang, loc, w, kind, val)
                visited.add((loc, w))
                if not quick:
                    add(lang, loc, w, kind, val, normalize=False)
    if quick:
        # in every run: the names where normalisation has to arbitrate between two vocabulary words
        for lang in order:
            for w, kind, val in collision_names(lang):
                if (lang, w) not in visited:
                    add(lang, None, w, kind, val)
                    visited.add((lang, w))
    if quick:
        # in every run: names containing a format character (ZWNJ/ZWJ, ...) or a bracket - what input sanitising touches;
        # plus a seed-rotated share of the names with other punctuation
        import unicodedata as _ud
        rot = 0
        for lang in order:
            for w, kind, val in names_of(lang):
                cats = {_ud.category(ch) for ch in w}
                if (lang, w) in visited or not any(c[0] in "PSC" for c in cats):
                    continue
                always = bool(cats & {"Cf", "Ps", "Pe"})
                rot += 0 if always else 1
                if always or (rot + seed) % 12 == 0:
                    add(lang, None, w, kind, val)
                    visited.add((lang, w))
    # regional additions that are accent twins of an inherited word: with normalisation off (every run, every locale)
    for lang in order:
        for loc in locd.get(lang, []):
            for w, kind, val in overlay_accent_twins(lang, loc):
                if quick or True:
                    add(lang, loc, w, kind, val, normalize=False)
                    if (loc, w) not in visited:
                        add(lang, loc, w, kind, val)
                        visited.add((loc, w))
    for lang, loc, w, kind, val in overlay_conflicts():
        out.append({"name": "after-overlay:%s:%s:%s" % (loc, lang, w), "fn": "h_after_overlay", "budget_s": 120, "max_paths": 2000,
                    "args": {"lang": lang, "locale": loc, "name": w, "kind": kind, "val": val}})
    # every listed known-finding name is visited in every run (so that the finding line is backed by a fresh replay)
    for code, w in sorted(known):
        if (code, w) in visited:
            continue
        lang = code if code in order else code.rsplit("-", 1)[0]
        for w2, kind, val in (names_of(lang) if code == lang else names_of(lang, code)):
            if w2 == w:
                add(lang, None if code == lang else code, w, kind, val)
    return out


def build_spec(task, viol):
    w = C.ints(viol["witness"])
    a = dict(task["args"])
    st = {}
    if not a.get("normalize", True):
        st["NORMALIZE"] = False
    pre = None
    if task["fn"] == "h_after_overlay":
        pre = {"string": "12/10/2015", "locales": [a["locale"]], "settings": {}}
        a = {"lang": a["lang"], "locale": None, "name": a["name"], "normalize": True,
             "month" if a["kind"] == "month" else "wd": a["val"], "width": 2}
        fn_name = "h_month" if "month" in a else "h_weekday"
    else:
        fn_name = task["fn"]
    if fn_name == "h_month":
        s = "%0*d %s %04d" % (a["width"], w["d"], a["name"], w["Y"])
        exp = [w["Y"], a["month"], w["d"]]
    else:
        s = a["name"]
        st["RELATIVE_BASE"] = C.base_from_witness(w)
        exp = None
    return {"task": task["name"], "fn": fn_name, "args": a, "witness": w, "clock": C.clock_from_witness(w), "expect": exp,
            "pre_call": pre, "call": {"string": s, "languages": None if a["locale"] else [a["lang"]], "locales": [a["locale"]] if a["locale"] else None,
                     "settings": st}}


def native_check(spec):
    from symx import native
    a = spec["args"]
    if spec.get("pre_call"):
        native.call_api(spec["pre_call"], spec.get("clock"))
    res = native.call_api(spec["call"], spec.get("clock"))
    code = a["locale"] or a["lang"]
    desc = "parse(%r, %s=%r, settings=%r)" % (spec["call"]["string"], "locales" if a["locale"] else "languages", [code],
                                              spec["call"]["settings"])
    if "exception" in res:
        return {"violates": True, "detail": "%s raised %s" % (desc, res["exception"])}
    got = res["date_obj"]
    if spec["fn"] == "h_month":
        exp = _dt.datetime(*spec["expect"])
    else:
        b = _dt.datetime(*spec["call"]["settings"]["RELATIVE_BASE"])
        exp = _dt.datetime.combine(b.date() - _dt.timedelta(days=(b.weekday() - a["wd"]) % 7), _dt.time())
    bad = got is None or got.tzinfo is not None or _dt.datetime(*got.timetuple()[:6], got.microsecond) != exp
    return {"violates": bad, "detail": "%s -> %r, expected %r" % (desc, got, exp)}


def classify_known(spec, verdict, known):
    a = spec["args"]
    code = a["locale"] or a["lang"]
    for k in known:
        if k["id"] == FID and any(e["locale"] == code and e["name"] == a["name"] and a.get("normalize", True) in e["normalize"]
                                  for e in k.get("entries", [])):
            return FID
    return None
