"""C07 — DATE_ORDER and the locale's own order decide numeric dates (symx, public API entry)."""
import datetime as _dt

import z3

from symx import core, dates
from symx.core import _zi, mkbool
from symx.tmpl import tmpl, render
from . import common as C

ID = "C07"
ENCODED = ["dateparser.date.DateDataParser.get_date_data", "dateparser.date._DateLocaleParser._try_parser",
           "dateparser.date_parser.DateParser.parse", "dateparser.parser._parser.__init__/_parse/parse_number/_results",
           "dateparser.parser.resolve_date_order / date_order_chart", "dateparser.parser.tokenizer",
           "dateparser.utils.strptime.strptime", "_strptime._strptime (stdlib clone)",
           "dateparser.languages.locale.Locale.translate/is_applicable", "dateparser.languages.loader.LocaleDataLoader"]
ASSUMPTIONS = [
    "while finding C07-year-as-utc-offset is open: for separator '-' with the year written last and no time suffix, the "
    "years whose digits the repository's own pop_tz_offset_from_string strips as a UTC offset (recomputed each run, 16 "
    "values on the pinned tree) are assumed away; the finding is re-confirmed natively from its listed example",
    "bounded claim: every valid calendar date with year 1-9999 written as three numeric fields (year 4-digit "
    "zero-padded, month and day 2-digit), separators '-', '/', '.', ' ', optional ' HH:MM' suffix; the string is the "
    "rendering of the date in the order under test, so the reading the order names is valid by construction",
    "explicit DATE_ORDER: all 6 orders, language en (and fr/ja as languages whose own order differs); default order: "
    "the languages/locales visited in this tier (listed in coverage), with PREFER_LOCALE_DATE_ORDER on and off",
    "PREFER_* choices and the clock are symbolic and must be irrelevant",
    "date theory (symx.dates) stands for CPython datetime/calendar; symbolic regex stands for re/regex on templates",
]
ORDERS = ["DMY", "DYM", "MDY", "MYD", "YDM", "YMD"]
SEPS = ["-", "/", ".", " "]
_F = {"D": ("d", 2), "M": ("m", 2), "Y": ("Y", 4)}


def parts_for(order, sep, with_time):
    p = []
    for i, ch in enumerate(order):
        if i:
            p.append(sep)
        p.append(_F[ch])
    if with_time:
        p += [" ", ("H", 2), ":", ("T", 2)]
    return p


FID = "C07-year-as-utc-offset"


def swallowed_years(sep):
    """years whose four digits, written last after `sep`, are popped from the string as a UTC offset by the repository's
    own pop_tz_offset_from_string (computed natively in a sub-process: a finite table scan, the region of the finding)"""
    import json
    import subprocess
    from symx import runner
    code = ("import sys,json; sys.path.insert(0,%r); from dateparser.timezone_parser import pop_tz_offset_from_string as p;"
            "print(json.dumps([y for y in range(1,10000) if p('01%s01%s%%04d' %% y)[0] != '01%s01%s%%04d' %% y]))"
            % (runner.REPO, sep, sep, sep, sep))
    r = subprocess.run([runner.PY, "-c", code], capture_output=True, text=True, timeout=300)
    return json.loads(r.stdout.strip().splitlines()[-1])


def h_order(order, sep, with_time=False, explicit=True, languages=("en",), locales=None, prefer_locale=None,
            swallowed=(), region=None, expect_locale=None):
    parts = parts_for(order, sep, with_time)

    def fn():
        v = C.date_fields()
        if swallowed:
            # region of the open finding C07-year-as-utc-offset: outside the claim of this task (assumed away);
            # the finding itself is re-confirmed natively on every run from its listed example
            core.assume(mkbool(z3.And(*[_zi(v["Y"]) != y for y in swallowed])))
        if with_time:
            v["H"] = C.field("H", 0, 23)
            v["T"] = C.field("T", 0, 59)
        st, wit = C.pref_settings()
        if locales or region:
            # as in a fresh process: the regional locale is the first locale of its language to be loaded
            n = C.ns()
            n.LO.LocaleDataLoader._loaded_languages.clear()
            n.LO.LocaleDataLoader._loaded_locales.clear()
            n.D.DateDataParser.locale_loader = None
        if explicit:
            st["DATE_ORDER"] = order
        if prefer_locale is not None:
            st["PREFER_LOCALE_DATE_ORDER"] = prefer_locale
        s = tmpl(parts, v)
        dd = C.api(s, languages=list(languages) if languages else None, locales=list(locales) if locales else None,
                   settings=st, region=region)
        wit.update(v)
        do = dd.date_obj
        if do is None:
            return C.outcome(False, wit, "none")
        ok = z3.And(C.dt_is(do, v["Y"], v["m"], v["d"], v.get("H", 0), v.get("T", 0)), do.tzinfo is None,
                    dd.period == "day")
        if expect_locale is not None:
            ok = z3.And(ok, z3.BoolVal(getattr(dd.locale, "shortname", dd.locale) == expect_locale))
        return C.outcome(ok, wit, "parsed")
    return fn


def tasks(tier, seed):
    out = []
    quick = tier == "quick"
    from symx import runner
    open_ = any(k["id"] == FID and k.get("status", "open") == "open" for k in runner.load_known())
    sw = {}

    def add(name, args, budget=300):
        # the open finding lives where the year is written last after a separator that can start an offset
        if open_ and args["order"][-1] == "Y" and not args.get("with_time"):
            if args["sep"] not in sw:
                sw[args["sep"]] = swallowed_years(args["sep"])
            if sw[args["sep"]]:
                args = dict(args, swallowed=sw[args["sep"]])
        out.append({"name": name, "fn": "h_order", "args": args, "budget_s": budget if quick else budget * 4,
                    "max_paths": 20000})
    # explicit DATE_ORDER
    for i, o in enumerate(ORDERS):
        seps = [SEPS[(seed + i) % 4]] if quick else SEPS
        for sep in seps:
            add("explicit:%s:%r" % (o, sep), {"order": o, "sep": sep})
        if not quick or i % 3 == seed % 3:
            add("explicit:%s:%r:time" % (o, SEPS[(seed + i + 2) % 4]), {"order": o, "sep": SEPS[(seed + i + 2) % 4], "with_time": True})
    # explicit order beats a differing locale order
    add("explicit-vs-locale:MDY:fr", {"order": "MDY", "sep": "/", "languages": ["fr"]})
    if not quick:
        add("explicit-vs-locale:DMY:ja", {"order": "DMY", "sep": "-", "languages": ["ja"]})
        add("explicit-vs-locale:YMD:en-GB", {"order": "YMD", "sep": ".", "languages": None, "locales": ["en-GB"]})
    # default order: the locale's own, or MDY
    order_list, locale_dict = C.languages_index()
    langs = [l for l in order_list]
    if quick:
        k = 4
        start = (seed * k) % len(langs)
        pick = ["en", "ja"] + [langs[(start + j) % len(langs)] for j in range(k)]
    else:
        pick = langs
    for j, lang in enumerate(pick):
        own = C.locale_date_order(lang) or "MDY"
        seps = [SEPS[(seed + j) % 4]] if quick else SEPS
        for sep in seps:
            add("locale-order:%s:%s:%r" % (lang, own, sep), {"order": own, "sep": sep, "explicit": False, "languages": [lang]})
        if (quick and j == 2) or not quick:
            add("locale-order-off:%s:MDY" % lang, {"order": "MDY", "sep": SEPS[(seed + j + 1) % 4], "explicit": False,
                                                   "languages": [lang], "prefer_locale": False})
    # regional locales whose order differs from their language's
    # (which locales these are is read from the CLDR sources and the language index, not from the generated modules)
    regional = []
    for lang in langs:
        for loc in locale_dict.get(lang, []):
            o = C.locale_date_order(lang, loc)
            if o and o != C.locale_date_order(lang):
                regional.append((lang, loc, o))
    if quick:
        # per (language, order) group: small groups entirely, large ones by a seed-rotated member
        groups = {}
        for lang, loc, o in regional:
            groups.setdefault((lang, o), []).append((lang, loc, o))
        regional = []
        for g in groups.values():
            regional += g if len(g) <= 3 else [g[(seed + j * 7) % len(g)] for j in range(2)]
    for lang, loc, o in regional:
        add("locale-order:%s:%s" % (loc, o), {"order": o, "sep": "/", "explicit": False, "languages": None, "locales": [loc]})
    # the same locales selected as language + region (numeric UN M.49 regions included)
    via = [(lang, loc, o) for lang, loc, o in regional if loc.startswith(lang + "-")]
    numeric = [t for t in via if t[1].rsplit("-", 1)[1].isdigit()]
    rest = [t for t in via if t not in numeric]
    if quick:
        rest = [rest[(seed * 5 + 3 * j) % len(rest)] for j in range(min(4, len(rest)))] if rest else []
    for lang, loc, o in numeric + rest:
        add("region-order:%s+%s:%s" % (lang, loc[len(lang) + 1:], o), {"order": o, "sep": "/", "explicit": False,
                                                                      "languages": [lang], "region": loc[len(lang) + 1:],
                                                                      "expect_locale": loc})
    return out


def build_spec(task, viol):
    w = C.ints(viol["witness"])
    a = task["args"]
    parts = parts_for(a["order"], a["sep"], a.get("with_time", False))
    st = C.spec_settings({}, w)
    if a.get("explicit", True):
        st["DATE_ORDER"] = a["order"]
    if a.get("prefer_locale") is not None:
        st["PREFER_LOCALE_DATE_ORDER"] = a["prefer_locale"]
    return {"task": task["name"], "witness": w, "clock": C.clock_from_witness(w),
            "call": {"string": render(parts, w), "languages": a.get("languages", ["en"]), "locales": a.get("locales"),
                     "settings": st, "region": a.get("region")},
            "expect": [w["Y"], w["m"], w["d"], w.get("H", 0), w.get("T", 0)], "expect_locale": a.get("expect_locale")}


def native_check(spec):
    from symx import native
    res = native.call_api(spec["call"], spec.get("clock"))
    exp = _dt.datetime(*spec["expect"])
    desc = "parse(%r, languages=%r, locales=%r, settings=%r)" % (spec["call"]["string"], spec["call"].get("languages"),
                                                                 spec["call"].get("locales"), spec["call"]["settings"])
    if "exception" in res:
        return {"violates": True, "detail": "%s raised %s" % (desc, res["exception"])}
    got = res["date_obj"]
    bad = got is None or got.tzinfo is not None or _dt.datetime(*got.timetuple()[:6]) != exp or res["period"] != "day"
    loc = getattr(res.get("locale"), "shortname", res.get("locale"))
    if not bad and spec.get("expect_locale") and loc != spec["expect_locale"]:
        bad = True
    return {"violates": bad, "detail": "%s region=%r -> %r (locale %s), expected %r%s" % (
        desc, spec["call"].get("region"), got, loc, exp,
        (" with locale %s" % spec["expect_locale"]) if spec.get("expect_locale") else "")}


def classify_known(spec, verdict, known):
    """the year field (written last, after '-') is popped from the string as a UTC offset"""
    if FID not in {k["id"] for k in known}:
        return None
    from symx import native
    native.import_repo()
    from dateparser.timezone_parser import pop_tz_offset_from_string
    s = spec["call"]["string"]
    stripped, _ = pop_tz_offset_from_string(s)
    if stripped != s and s.startswith(stripped.rstrip()) and len(s) - len(stripped.rstrip()) == 5:
        return FID
    return None
