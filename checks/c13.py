"""C13 — language selection is honoured; autodetection is reproducible (symx)."""
import datetime as _dt
import importlib
import sys

import z3

from symx import core, dates
from symx.core import _zi, mkbool
from symx.tmpl import tmpl, render
from . import common as C

ID = "C13"
ENCODED = ["dateparser.date.DateDataParser.__init__/get_date_data/_get_applicable_locales (real code; per-locale "
           "applicability and per-locale parse outcome replaced by symbolic bits)",
           "dateparser.languages.loader.LocaleDataLoader._load_data/get_locales (ordering, unknown codes)",
           "dateparser.timezone_parser.pop_tz_offset_from_string (the tz-stripped second chance)",
           "relational tasks: the full pipeline, autodetection vs. the reported language, with symbolic digits",
           "load-history tasks: LocaleDataLoader + Locale.__init__ (locale_specific overlay) after a symbolic load order"]
ASSUMPTIONS = [
    "selection law: per locale three symbolic bits (applicable to the raw string, applicable to the tz-stripped string, "
    "single-language parse succeeds); language sequences of <= 3 distinct codes from a pool of 4 real languages (+ an "
    "unknown code), DEFAULT_LANGUAGES of <= 2 codes from {en, de} (overlapping and not overlapping the selection), "
    "use_given_order symbolic; all enumerated by solver-driven forking",
    "expected winner = first locale in the library's priority order (language_order read from the data file with ast) or "
    "in the given order whose bits say 'applicable (raw or stripped) and parsed'; defaults only when none of the selected "
    "succeeds; unknown code => ValueError",
    "relational tasks use English/French/German month-name templates with symbolic digits; the multilingual corpus of the "
    "property is outside",
    "load-history tasks: the loader's class-level caches and the language data module are reset at the start of each "
    "path; the order of the first three loads of one language's locales is symbolic",
]
POOL = ["en", "fr", "hr", "ja"]
DPOOL = ["en", "de"]
STRINGS = ["10.11.2012 14:00 CET", "10.11.2012 14:00"]


def variant_pools():
    """one pool per script-variant language L (code with a hyphen, e.g. zh-Hant): [L, X, B] with B the base language and
    X a language ranked strictly between B and L in the library's priority order (when one exists) - a loader that ranks
    a variant at its base language's position, or the reverse, orders such a pool differently"""
    order, _ = C.languages_index()
    out = []
    for L in order:
        if "-" not in L:
            continue
        B = L.split("-")[0]
        if B not in order:
            continue
        lo, hi = sorted((order.index(B), order.index(L)))
        mid = [x for x in order[lo + 1:hi] if "-" not in x]
        out.append([L] + ([mid[len(mid) // 2]] if mid else []) + [B])
    return out


def h_law(k, string_idx, with_unknown=False, first=None, second=None, pool=None, max_default=2):
    s = STRINGS[string_idx]
    POOL = pool or globals()["POOL"]

    def fn():
        n = C.ns()
        order, _ = C.languages_index()
        pool = POOL + (["xx"] if with_unknown else [])
        idx = []
        for j in range(k):
            if j == 0 and first is not None:
                i = first
            elif j == 1 and second is not None:
                i = second
            else:
                i = core.concretize(C.field("lang%d" % j, 0, len(pool) - 1))
            if i in idx:
                raise core.Abort()
            idx.append(i)
        langs = [pool[i] for i in idx]
        given = core.branch(z3.Bool("use_given_order"))
        nd = core.concretize(C.field("ndefault", 0, max_default))
        didx = []
        for j in range(nd):
            i = core.concretize(C.field("dflt%d" % j, 0, len(DPOOL) - 1))
            if i in didx:
                raise core.Abort()
            didx.append(i)
        dflt = [DPOOL[i] for i in didx]
        bits = {}

        def bit(kind, name):
            key = (kind, name)
            if key not in bits:
                bits[key] = z3.Bool("%s_%s" % (kind, name))
            return bits[key]
        stripped, _tz = n.TZ.pop_tz_offset_from_string(s, as_offset=False)
        has_stripped = stripped != s
        marker = {}

        def is_applicable(self, locale, date_string):
            kind = "app_raw" if date_string == s else "app_stripped"
            return core.branch(bit(kind, locale.shortname))

        def parse(locale, date_string, date_formats=None, settings=None):
            if core.branch(bit("parsed", locale.shortname)):
                marker.setdefault(locale.shortname, len(marker))
                return n.D.DateData(date_obj=dates.SDateTime(2000 + marker[locale.shortname], 1, 1), period="day")
            return None
        real_app, real_parse = n.D.DateDataParser._is_applicable_locale, n.D._DateLocaleParser.parse
        n.D.DateDataParser._is_applicable_locale = is_applicable
        n.D._DateLocaleParser.parse = staticmethod(parse)
        wit = {"use_given_order": given, "ndefault": nd}
        wit.update({"lang%d" % j: i for j, i in enumerate(idx)})
        wit.update({"dflt%d" % j: i for j, i in enumerate(didx)})
        try:
            try:
                parser = n.D.DateDataParser(languages=langs, use_given_order=given,
                                            settings={"DEFAULT_LANGUAGES": dflt} if dflt else None)
                dd = parser.get_date_data(s)
            except ValueError as e:
                wit.update({"%s_%s" % kk: v for kk, v in bits.items()})
                return C.outcome("xx" in langs, wit, "ValueError")
        finally:
            n.D.DateDataParser._is_applicable_locale = real_app
            n.D._DateLocaleParser.parse = real_parse
        if "xx" in langs:
            return C.outcome(False, wit, "unknown-code-accepted")
        seq = langs if given else sorted(langs, key=order.index)
        dseq = dflt if given else sorted(dflt, key=order.index)
        # expected winner as a z3 term over ALL bits of the locales involved
        exp = z3.IntVal(-1)
        cands = [(l, True) for l in seq] + [(l, False) for l in dseq]
        for pos in range(len(cands) - 1, -1, -1):
            l, needs_app = cands[pos]
            cond = bit("parsed", l)
            if needs_app:
                app = bit("app_raw", l)
                if has_stripped:
                    app = z3.Or(app, bit("app_stripped", l))
                cond = z3.And(app, cond)
            exp = z3.If(cond, pos, exp)
        names = [l for l, _ in cands]
        if dd.locale is None:
            got = -1
            okc = dd.date_obj is None
        else:
            # the same language may appear among the selected and the default ones: any position of that name fits
            poss = [p for p, nm in enumerate(names) if nm == dd.locale]
            got = None
            okc = dd.date_obj is not None and bool(poss)
        wit.update({"%s_%s" % kk: v for kk, v in bits.items()})
        if not okc:
            return C.outcome(False, wit, "bad-result")
        if got == -1:
            return C.outcome(exp == -1, wit, "none")
        # the reported locale must be the expected winner's language
        return C.outcome(z3.Or(*[exp == p for p in poss]), wit, "winner")
    return fn


REL = {
    "fr": ([("d", 2), " septembre ", ("Y", 4)], 9, "fr"),
    "de": ([("d", 2), ". Oktober ", ("Y", 4)], 10, "de"),
    "en": (["March ", ("d", 2), ", ", ("Y", 4), " ", ("H", 2), ":", ("M", 2)], 3, "en"),
    "es": ([("d", 2), " de enero de ", ("Y", 4)], 1, "es"),
}


def h_reparse(name):
    parts, month, lang = REL[name]

    def fn():
        v = {"Y": C.field("Y", 1000, 9999), "d": C.field("d", 1, 28)}
        if any(p == ("H", 2) for p in parts):
            v["H"], v["M"] = C.field("H", 0, 23), C.field("M", 0, 59)
        s = tmpl(parts, v)
        a = C.api(s)                       # autodetection
        wit = dict(v)
        if a.date_obj is None or a.locale is None:
            return C.outcome(False, wit, "autodetect-none")
        b = C.api(s, languages=[a.locale])
        if b.date_obj is None:
            return C.outcome(False, wit, "reparse-none", {"locale": a.locale})
        same = z3.And(*[_zi(getattr(a.date_obj, f)) == _zi(getattr(b.date_obj, f)) for f in dates._FIELDS])
        ok = z3.And(same, a.period == b.period, b.locale == a.locale,
                    C.dt_is(a.date_obj, v["Y"], month, v["d"], v.get("H", 0), v.get("M", 0)))
        return C.outcome(ok, wit, "same", {"locale": a.locale})
    return fn


HIST = {
    # language: (locales with their own conventions, numeric string parts, expected order per locale)
    "en": ["en-GB", "en", "en-AU", "en-NZ"],
    "es": ["es-PR", "es", "es-PA", "es-MX"],
    "fr": ["fr-CA", "fr", "fr-MA", "fr-CH"],
}


def h_load_history(lang, first=None):
    locs = HIST[lang]

    def fn():
        n = C.ns()
        # reset the process-wide loader state and the language data module
        n.LO.LocaleDataLoader._loaded_languages.clear()
        n.LO.LocaleDataLoader._loaded_locales.clear()
        n.D.DateDataParser.locale_loader = None
        mod = sys.modules.get("dateparser.data.date_translation_data." + lang)
        if mod is not None:
            importlib.reload(mod)
        perm = []
        for j in range(3):
            i = first if (j == 0 and first is not None) else core.concretize(C.field("load%d" % j, 0, len(locs) - 1))
            if i in perm:
                raise core.Abort()
            perm.append(i)
        v = C.date_fields(ymin=1000, ymax=9999)
        wit = dict(v)
        wit.update({"load%d" % j: i for j, i in enumerate(perm)})
        for pos, i in enumerate(perm):
            code = locs[i]
            order = C.locale_date_order(lang, code) or "MDY"
            # the first two loads use a concrete date (only the loading matters), the last one symbolic digits
            vals = v if pos == 2 else {"Y": 2012, "m": 11, "d": 10}
            parts = []
            for q, ch in enumerate(order):
                if q:
                    parts.append("/")
                parts.append({"D": ("d", 2), "M": ("m", 2), "Y": ("Y", 4)}[ch])
            s = tmpl(parts, vals)
            if code == lang:
                dd = C.api(s, languages=[lang])
            else:
                dd = C.api(s, locales=[code])
            if dd.date_obj is None:
                return C.outcome(False, wit, "none", {"locale": code})
            ok = z3.And(C.dt_is(dd.date_obj, vals["Y"], vals["m"], vals["d"]), dd.locale == code)
            if pos == 2:
                return C.outcome(ok, wit, "history-ok", {"locale": code})
            if not z3.is_true(z3.simplify(ok)):
                return C.outcome(False, wit, "wrong-conventions", {"locale": code})
        return C.outcome(True, wit, "history-ok")
    return fn


# (languages, region): the region exists for some of the languages only
REGION_MIX = [(["fr", "en"], "AU"), (["en", "fr"], "CA"), (["de", "en", "es"], "US"), (["pt", "es"], "MX"), (["ru", "en"], "001")]


def _valid_locales(langs, region):
    _, locd = C.languages_index()
    return [l + "-" + region for l in langs if (l + "-" + region) in locd.get(l, [])]


def h_region_mix(idx, probe_lang):
    """languages + region when the region is defined for some of the languages only: the locales that exist are used
    (the reported locale is one of them, the date is read by its conventions); afterwards the locale selected directly
    still behaves as in a fresh process"""
    langs, region = REGION_MIX[idx]

    def fn():
        n = C.ns()
        n.LO.LocaleDataLoader._loaded_languages.clear()
        n.LO.LocaleDataLoader._loaded_locales.clear()
        n.D.DateDataParser.locale_loader = None
        valid = _valid_locales(langs, region)
        v = C.date_fields(ymin=1000, ymax=9999)
        core.assume(mkbool(_zi(v["d"]) <= 12))        # ambiguous on purpose: only the locale's order decides
        wit = dict(v)
        p = n.D.DateDataParser(languages=list(langs), region=region)
        loc = probe_lang + "-" + region
        order = C.locale_date_order(probe_lang, loc) or "MDY"
        parts = []
        for q, ch in enumerate(order):
            if q:
                parts.append("/")
            parts.append({"D": ("d", 2), "M": ("m", 2), "Y": ("Y", 4)}[ch])
        dd = p.get_date_data(tmpl(parts, v))
        if dd.date_obj is None:
            return C.outcome(False, wit, "none")
        lname = getattr(dd.locale, "shortname", dd.locale)
        orders = {C.locale_date_order(l.rsplit("-", 1)[0] if l.count("-") else l, l) or "MDY" for l in valid}
        ok = lname in valid
        if len(orders) == 1:
            ok = z3.And(z3.BoolVal(ok), C.dt_is(dd.date_obj, v["Y"], v["m"], v["d"]))
        # history: the same locale selected directly afterwards applies its own vocabulary and order
        dd2 = n.D.DateDataParser(locales=[loc]).get_date_data(tmpl(parts, v))
        ok2 = dd2.date_obj is not None and getattr(dd2.locale, "shortname", dd2.locale) == loc
        if ok2:
            ok = z3.And(ok if not isinstance(ok, bool) else z3.BoolVal(ok), C.dt_is(dd2.date_obj, v["Y"], v["m"], v["d"]))
        else:
            ok = False
        return C.outcome(ok, wit, "region-mix", {"locale": lname, "valid": valid})
    return fn


def tasks(tier, seed):
    out = []
    quick = tier == "quick"

    def add(name, fn, args, budget=300):
        out.append({"name": name, "fn": fn, "args": args, "budget_s": budget if quick else budget * 6, "max_paths": 200000})
    for k in (1, 2):
        for si in (0, 1):
            for first in range(len(POOL)):
                add("law:k=%d:%s:first=%s" % (k, "tz" if si == 0 else "plain", POOL[first]), "h_law",
                    {"k": k, "string_idx": si, "first": first}, 280)
    trip = [(si, a, b) for si in (0, 1) for a in range(len(POOL)) for b in range(len(POOL)) if a != b]
    if quick:
        trip = [trip[(seed * 5 + 7 * j) % len(trip)] for j in range(4)]
    for si, a, b in trip:
        add("law:k=3:%s:first=%s,%s" % ("tz" if si == 0 else "plain", POOL[a], POOL[b]), "h_law",
            {"k": 3, "string_idx": si, "first": a, "second": b}, 280)
    # script variants: the priority order of a variant, its base language and a language ranked between them
    vp = variant_pools()
    for pool in vp:
        kk = len(pool)
        add("law:variant:%s" % "+".join(pool), "h_law", {"k": kk, "string_idx": 1, "pool": pool, "max_default": 0}, 120)
    add("law:unknown-code", "h_law", {"k": 2, "string_idx": 1, "with_unknown": True, "first": len(POOL)}, 120)
    for name in (sorted(REL) if not quick else [sorted(REL)[seed % len(REL)], "en"]):
        add("reparse:%s" % name, "h_reparse", {"name": name})
    mix = list(range(len(REGION_MIX))) if not quick else [seed % len(REGION_MIX), (seed + 2) % len(REGION_MIX)]
    for i in mix:
        langs, region = REGION_MIX[i]
        for l in [x.rsplit("-", 1)[0] for x in _valid_locales(langs, region)][:1 if quick else 3]:
            add("region-mix:%s+%s:%s" % ("+".join(langs), region, l), "h_region_mix", {"idx": i, "probe_lang": l}, 200)
    for lang in (sorted(HIST) if not quick else [sorted(HIST)[seed % len(HIST)]]):
        for first in range(len(HIST[lang])):
            add("load-history:%s:first=%s" % (lang, HIST[lang][first]), "h_load_history", {"lang": lang, "first": first})
    return out


# ------------------------------------------------------------------------------------------------ replay side
def build_spec(task, viol):
    w = {k: v for k, v in viol["witness"].items() if isinstance(v, (int, bool))}
    return {"task": task["name"], "fn": task["fn"], "args": task["args"], "witness": w, "info": viol.get("info", {})}


def native_check(spec):
    from symx import native
    native.import_repo()
    import dateparser.date as D
    from dateparser.date import DateDataParser, DateData
    from dateparser.timezone_parser import pop_tz_offset_from_string
    fn, a, w = spec["fn"], spec["args"], spec["witness"]
    if fn == "h_region_mix":
        langs, region = REGION_MIX[a["idx"]]
        valid = _valid_locales(langs, region)
        loc = a["probe_lang"] + "-" + region
        order = C.locale_date_order(a["probe_lang"], loc) or "MDY"
        s_ = "/".join({"D": "%02d" % w["d"], "M": "%02d" % w["m"], "Y": "%04d" % w["Y"]}[ch] for ch in order)
        exp = _dt.datetime(w["Y"], w["m"], w["d"])
        try:
            dd = DateDataParser(languages=list(langs), region=region).get_date_data(s_)
            dd2 = DateDataParser(locales=[loc]).get_date_data(s_)
        except Exception as e:  # noqa
            return {"violates": True, "detail": "languages=%r, region=%r, %r raised %s: %s" % (langs, region, s_, type(e).__name__, e)}
        orders = {C.locale_date_order(l.rsplit("-", 1)[0], l) or "MDY" for l in valid}
        bad = dd.date_obj is None or dd.locale not in valid or (len(orders) == 1 and dd.date_obj != exp) \
            or dd2.date_obj != exp or dd2.locale != loc
        return {"violates": bad, "detail": "DateDataParser(languages=%r, region=%r).get_date_data(%r) -> %r (locale %r; the locales "
                "that exist: %r); then DateDataParser(locales=[%r]) -> %r (locale %r); expected %r" % (
                    langs, region, s_, dd.date_obj, dd.locale, valid, loc, dd2.date_obj, dd2.locale, exp)}
    if fn == "h_law":
        order, _ = C.languages_index()
        pool = (a.get("pool") or POOL) + (["xx"] if a.get("with_unknown") else [])
        s = STRINGS[a["string_idx"]]
        langs = [pool[w["lang%d" % j]] if ("lang%d" % j) in w else pool[a["first"] if j == 0 else a["second"]]
                 for j in range(a["k"])]
        dflt = [DPOOL[w["dflt%d" % j]] for j in range(w.get("ndefault", 0))]
        given = bool(w.get("use_given_order"))

        def b(kind, name):
            return bool(w.get("%s_%s" % (kind, name), False))
        D.DateDataParser._is_applicable_locale = lambda self, locale, ds: b("app_raw" if ds == s else "app_stripped", locale.shortname)
        D._DateLocaleParser.parse = staticmethod(
            lambda locale, ds, date_formats=None, settings=None:
            DateData(date_obj=_dt.datetime(2000, 1, 1), period="day") if b("parsed", locale.shortname) else None)
        desc = "languages=%r use_given_order=%r DEFAULT_LANGUAGES=%r on %r, bits %r" % (
            langs, given, dflt, s, {k: v for k, v in w.items() if "_" in k and k.split("_")[0] in ("app", "parsed")})
        try:
            dd = DateDataParser(languages=langs, use_given_order=given, settings={"DEFAULT_LANGUAGES": dflt} if dflt else None).get_date_data(s)
        except ValueError as e:
            return {"violates": "xx" not in langs, "detail": "%s raised ValueError: %s" % (desc, e)}
        if "xx" in langs:
            return {"violates": True, "detail": "%s: unknown language code accepted" % desc}
        stripped, _ = pop_tz_offset_from_string(s, as_offset=False)
        seq = langs if given else sorted(langs, key=order.index)
        dseq = dflt if given else sorted(dflt, key=order.index)
        exp = None
        for l in seq:
            if (b("app_raw", l) or (stripped != s and b("app_stripped", l))) and b("parsed", l):
                exp = l
                break
        if exp is None:
            for l in dseq:
                if b("parsed", l):
                    exp = l
                    break
        return {"violates": dd.locale != exp, "detail": "%s -> locale %r, expected %r" % (desc, dd.locale, exp)}
    if fn == "h_reparse":
        parts, month, lang = REL[a["name"]]
        s = render(parts, w)
        x = DateDataParser().get_date_data(s)
        exp = _dt.datetime(w["Y"], month, w["d"], w.get("H", 0), w.get("M", 0))
        if x.date_obj is None:
            return {"violates": True, "detail": "autodetect(%r) -> None" % s}
        y = DateDataParser(languages=[x.locale]).get_date_data(s)
        bad = y.date_obj != x.date_obj or y.period != x.period or y.locale != x.locale or x.date_obj != exp
        return {"violates": bad, "detail": "autodetect(%r) -> %r/%s; languages=[%r] -> %r/%s; expected %r" % (
            s, x.date_obj, x.locale, x.locale, y.date_obj, y.locale, exp)}
    # load history
    lang = a["lang"]
    locs = HIST[lang]
    perm = [w["load%d" % j] if ("load%d" % j) in w else a["first"] for j in range(3)]
    exp = _dt.datetime(w["Y"], w["m"], w["d"])
    out = []
    for pos, i in enumerate(perm):
        code = locs[i]
        order = C.locale_date_order(lang, code) or "MDY"
        ww = w if pos == 2 else {"Y": 2012, "m": 11, "d": 10}
        exp = _dt.datetime(ww["Y"], ww["m"], ww["d"])
        s = "/".join({"D": "%02d" % ww["d"], "M": "%02d" % ww["m"], "Y": "%04d" % ww["Y"]}[ch] for ch in order)
        dd = (DateDataParser(languages=[lang]) if code == lang else DateDataParser(locales=[code])).get_date_data(s)
        out.append((code, s, dd.date_obj))
        if dd.date_obj != exp or dd.locale != code:
            return {"violates": True, "detail": "load order %r: %r with %s -> %r (locale %r), expected %r" % (
                [locs[j] for j in perm], s, code, dd.date_obj, dd.locale, exp)}
    return {"violates": False, "detail": "load order %r fine: %r" % ([locs[j] for j in perm], out)}


def classify_known(spec, verdict, known):
    return None
