"""C17 — search_dates is total and its hits are well-formed, in-text, in order (symx)."""
import datetime as _dt

import z3

from symx import core, dates
from symx.core import _zi, mkbool
from symx.strings import TStr, coerce
from symx.tmpl import tmpl, render
from . import common as C

ID = "C17"
ENCODED = ["dateparser.languages.locale.Locale.translate_search (token loop: two-token lookahead, chunking)",
           "dateparser.languages.locale.Locale._simplify_split_align (alignment loops)",
           "dateparser.search.search._ExactLanguageSearch.parse_found_objects/split_if_not_parsed/split_by/choose_best_split",
           "dateparser.search.search_dates / DateSearchWithDetection.search_dates/detect_language/search_parse "
           "(full pipeline on sentence templates with symbolic digits)"]
ASSUMPTIONS = [
    "token-loop tasks: the sentence is an arbitrary sequence of <= 3 (thorough: 4) tokens drawn by symbolic choice from a "
    "per-locale pool (date words of the locale, halves of a two-word dictionary entry, filler, number, space, dash, "
    "timezone word, punctuated word); _sentence_split/_simplify_split_align are bypassed for these tasks",
    "alignment tasks: <= 3 original tokens, each expanded by simplification into 1-3 tokens (or 1-3 original tokens "
    "merged into one), by symbolic choice, no two adjacent tokens both rewritten (their pairing is ambiguous for the "
    "heuristic and only the end-to-end hits are specified); expected alignment = placeholders right after the token",
    "split tasks: one unparsed chunk of <= 4 pieces whose translated/original lengths straddle the 2-character threshold, "
    "joined by a splitter from the code's own list; the inner parser's outcome per piece is a symbolic bit",
    "text soups: texts of 2 (thorough: 3) tokens drawn by symbolic choice from a per-language pool (the language's own "
    "shortest month/weekday/relative/unit words, filler, punctuation, numeric fields with symbolic digits) through the full "
    "search_dates pipeline, 16 languages",
    "pipeline tasks: sentence templates in several languages with symbolic digits, languages given and autodetected, "
    "with and without RELATIVE_BASE; free text (arbitrary prose, mutated punctuation) is outside: letters are not symbolic",
]


# ------------------------------------------------------------------------------------------------ token loop
def _pool(n, code):
    loc = n.LO.LocaleDataLoader().get_locale(code)
    st = n.CONF.settings
    d = loc._get_dictionary(st)
    words = [w for w in d._dictionary if d._dictionary[w] and len(w) > 1 and not any(ch.isdigit() for ch in w)]
    one = sorted([w for w in words if " " not in w], key=lambda w: (len(w), w))[:2]
    two = sorted([w for w in words if w.count(" ") == 1], key=lambda w: (len(w), w))[:1]
    pool = list(one)
    for w in two:
        pool += w.split(" ")
    pool += ["zzqx", "12", " ", "-", "UTC", (one[0] + ",") if one else "x,", ""]
    return loc, pool


def h_tokens(code, length, first=None):
    def fn():
        n = C.ns()
        loc, pool = _pool(n, code)
        idx = []
        for j in range(length):
            i = first if (j == 0 and first is not None) else core.concretize(C.field("tok%d" % j, 0, len(pool) - 1))
            idx.append(i)
        toks = [pool[i] for i in idx]
        wit = {"tok%d" % j: i for j, i in enumerate(idx)}
        loc._sentence_split = lambda s, settings=None: ["x"]
        loc._simplify_split_align = lambda sentence, settings=None: (list(toks), [t.lower() for t in toks])
        try:
            try:
                translated, original = loc.translate_search("x", settings=n.CONF.settings)
            except Exception as e:  # noqa
                return C.outcome(False, wit, "raised:%s" % type(e).__name__, {"exception": "%s: %s" % (type(e).__name__, e)})
        finally:
            del loc._sentence_split
            del loc._simplify_split_align
        ok = len(translated) == len(original) and all(isinstance(x, str) for x in translated + original)
        # every original chunk is made of consecutive original tokens, in order
        pos = 0
        joined = "".join(toks) if "no_word_spacing" in loc.info else " ".join(toks)
        norm = lambda s: "".join(s.split())   # noqa
        for ch in original:
            k = norm(joined).find(norm(ch), pos) if norm(ch) else pos
            if k < 0:
                ok = False
                break
            pos = k + len(norm(ch))
        return C.outcome(bool(ok), wit, "ok")
    return fn


# ------------------------------------------------------------------------------------------------ alignment
def h_align(code, mode):
    def fn():
        n = C.ns()
        loc = n.LO.LocaleDataLoader().get_locale(code)
        k = core.concretize(C.field("n", 1, 3))
        orig, simp, exp_o, exp_s = [], [], [], []
        wit = {"n": k}
        prev = 1
        for i in range(k):
            e = core.concretize(C.field("e%d" % i, 1, 3))
            wit["e%d" % i] = e
            if e > 1 and prev > 1:
                raise core.Abort()   # two adjacent rewritten tokens: the pairing is ambiguous for the heuristic
            prev = e
            if mode == "expand":
                orig.append("Wo%d" % i)
                parts = ["wo%d" % i] if e == 1 else ["x%d%s" % (i, c) for c in "abc"[:e]]
                simp += parts
                exp_o += ["Wo%d" % i] + [""] * (e - 1)
                exp_s += parts
            else:
                parts = ["Wo%d%s" % (i, c) for c in "abc"[:e]]
                orig += parts
                simp.append("wo%da" % i if e == 1 else "m%d" % i)
                exp_o += parts
                exp_s += [simp[-1]] + [""] * (e - 1)
        calls = []

        def word_split(string, settings=None):
            calls.append(1)
            return list(orig) if len(calls) == 1 else list(simp)
        loc._word_split = word_split
        try:
            try:
                o, s = loc._simplify_split_align("x", settings=n.CONF.settings)
            except Exception as e:  # noqa
                return C.outcome(False, wit, "raised:%s" % type(e).__name__, {"exception": str(e)})
        finally:
            del loc._word_split
        ok = len(o) == len(s) and o == exp_o and s == exp_s
        return C.outcome(bool(ok), wit, "aligned", {"got": [o, s], "expected": [exp_o, exp_s]})
    return fn


# ------------------------------------------------------------------------------------------------ split of an unparsed chunk
PIECES = [("su", "sunday"), ("16", "16"), ("2015", "2015"), ("lokakuu", "october"), ("x", "x"), ("ke", "wednesday"), ("", "")]
SPLITTERS = [",", " ", ".", "—"]


def h_split(npieces, splitter_idx, relative_base):
    sp = SPLITTERS[splitter_idx]

    def fn():
        n = C.ns()
        idx = [core.concretize(C.field("p%d" % j, 0, len(PIECES) - 1)) for j in range(npieces)]
        wit = {"p%d" % j: i for j, i in enumerate(idx)}
        original = sp.join(PIECES[i][0] for i in idx)
        translated = sp.join(PIECES[i][1] for i in idx)
        bits = {}

        class _Parser:
            class _settings:
                RELATIVE_BASE = None

            def get_date_data(self, item):
                key = str(item)
                if item == translated:
                    return {"date_obj": None}          # the whole chunk does not parse: the split path is taken
                if key not in bits:
                    bits[key] = z3.Bool("parsed_%d" % len(bits))
                return {"date_obj": dates.SDateTime(2015, 1, 1 + len(bits)) if core.branch(bits[key]) else None}

        class _S:
            RELATIVE_BASE = dates.SDateTime(2015, 1, 1) if relative_base else None
        srch = n.SS._ExactLanguageSearch(None)
        try:
            parsed, substrings = srch.parse_found_objects(parser=_Parser(), to_parse=[translated], original=[original],
                                                          translated=[translated], settings=_S)
        except Exception as e:  # noqa
            return C.outcome(False, wit, "raised:%s" % type(e).__name__, {"exception": "%s: %s" % (type(e).__name__, e)})
        ok = len(parsed) == len(substrings) and all(isinstance(s, str) and s.strip() for s in substrings) \
            and all(p[0]["date_obj"] is not None for p in parsed)
        pos = 0
        for s in substrings:
            k = original.find(s, pos)
            if k < 0:
                ok = False
                break
            pos = k + len(s)
        return C.outcome(bool(ok), wit, "ok", {"original": original, "substrings": substrings})
    return fn


# ------------------------------------------------------------------------------------------------ full pipeline
TEXTS = {
    "en1": (["The satellite was launched on ", ("d", 2), " October 1957 and reported ", ("n", 2), " days ago."], ["en"]),
    "en2": (["Meeting: 03/", ("d", 2), "/2015 at ", ("H", 2), ":30 (room 12)"], ["en"]),
    "fr1": (["Le ", ("d", 2), " septembre 2015, puis il y a ", ("n", 2), " jours."], ["fr"]),
    "de1": (["Am ", ("d", 2), ". Oktober 2015 um ", ("H", 2), ":15 Uhr."], ["de"]),
    "ru1": ([("d", 2), " октября 2015 года, ", ("n", 2), " дня назад"], ["ru"]),
    "es1": (["el ", ("d", 2), " de enero de 2015 y hace ", ("n", 2), " semanas"], ["es"]),
    "zh1": (["2015年", ("m", 2), "月", ("d", 2), "日"], ["zh"]),
    "yue1": (["上個月 ", ("d", 2)], ["yue"]),
    # a hit with a zone, then a two-digit-year date (each hit is re-parsed relative to the previous one)
    "en3": (["Sent 12 March 2015 14:00 EST, received ", ("d", 2), "/04/16 late"], ["en"]),
    # a hit at the very start of the calendar, then a weekday (resolved relative to it)
    "en4": (["Founded on 01/01/0001. We are open on Friday. Room ", ("n", 2)], ["en"]),
    # the FIRST hit is relative and another hit follows, no RELATIVE_BASE given
    "en5": (["We spoke yesterday, the report is due on ", ("d", 2), " May 2020."], ["en"]),
    # language-specific preprocessing of the text (Russian "с <number>"): hits must still be substrings of the text given
    "ru2": (["Встреча ", ("d", 2), " января с ", ("H", 2), ":00 до 12:00"], ["ru"]),
    "ru3": (["Работаем с ", ("d", 2), " января по 15 января ", ("Y", 4)], ["ru"]),
    # runs of separators with spaces inside, next to words of languages whose sentences are not cut at '.' or that have no
    # word spacing: nothing there is a date
    "th_sep": (["ประชุม . . ครับ ", ("n", 2)], ["th"]),
    "hi_sep": (["मीटिंग . . है ", ("n", 2)], ["hi"]),
    "ja_sep": (["会議 - - です ", ("n", 2)], ["ja"]),
    "zh_sep": (["会议 - - 结束 ", ("n", 2)], ["zh"]),
    "bn_sep": (["সভা . . : ", ("n", 2)], ["bn"]),
}


CHAINED = ("en3", "en4", "en5")       # templates whose point is that a later hit is parsed relative to an earlier one (no RELATIVE_BASE)


def h_pipeline(name, detect, with_base, add_lang=False, only=None):
    parts, langs = TEXTS[name]
    if only:
        # quick tier: one symbolic field, the others at representative concrete values
        rep = {"d": "12", "m": "03", "H": "10", "n": "15", "Y": "2015"}
        parts = [p if isinstance(p, str) or p[0] == only else rep[p[0]] for p in parts]

    def fn():
        n = C.ns()
        v = {}
        for p in parts:
            if not isinstance(p, str):
                rng = {"d": (1, 28), "m": (1, 12), "Y": (1000, 9999), "H": (0, 23), "M": (0, 59), "n": (0, 99)}[p[0]]
                v[p[0]] = C.field(p[0], *rng)
        text = tmpl(parts, v)
        st = {}
        wit = dict(v)
        if with_base:
            b = C.sym_base("b", 1900, 2100)
            st["RELATIVE_BASE"] = b
            wit.update(C.base_witness(b))
        try:
            res = n.SE.search_dates(text, languages=None if detect else langs, settings=st or None, add_detected_language=add_lang)
        except Exception as e:  # noqa
            return C.outcome(False, wit, "raised:%s" % type(e).__name__, {"exception": "%s: %s" % (type(e).__name__, e)})
        if res is None:
            return C.outcome(True, wit, "none")
        ok = isinstance(res, list) and len(res) > 0
        t = coerce(text)
        squeeze = lambda x: TStr([i for i in coerce(x).items if not (isinstance(i, str) and i.isspace())])   # noqa
        hay = squeeze(t)
        pos = 0
        conds = []
        for tup in res:
            sub, dt = tup[0], tup[1]
            if not (isinstance(sub, (str, TStr)) and len(squeeze(sub)) > 0 and isinstance(dt, dates.SDateTime)):
                ok = False
                break
            if add_lang and (len(tup) != 3 or (not detect and tup[2] not in langs)):
                ok = False
                break
            k = hay.find(squeeze(sub), pos)
            if k < 0:
                ok = False
                break
            pos = k + len(squeeze(sub))
        return C.outcome(bool(ok), wit, "hits:%d" % len(res))
    return fn


# ------------------------------------------------------------------------------------------------ text soups
def soup_pool(lang):
    """words of the language's own vocabulary (shortest first) + filler + punctuation + numeric fields"""
    info = C.combined_info(lang)

    def pick(keys, n):
        ws = sorted({w for k in keys for w in info.get(k, []) if isinstance(w, str) and w and not any(c.isdigit() for c in w)},
                    key=lambda w: (len(w), w))
        return ws[:n]
    rel = sorted({w for ws in info.get("relative-type", {}).values() for w in ws if w and not any(c.isdigit() for c in w)},
                 key=lambda w: (len(w), w))[:2]
    pool = pick(C.EN_MONTHS, 2) + pick(C.EN_DAYS, 2) + rel + pick(["ago"], 1) + pick(["in"], 1) + pick(["day", "hour"], 2)
    pool += ["zzqx", ",", ".", ")", "-", "N2", "N4", "N2,", "N4)", "N2:N2", "N2.N2.N4"]
    out = []
    for w in pool:
        if w not in out:
            out.append(w)
    return out


def h_text_soup(lang, k, first, detect=False):
    import re as _re

    def fn():
        n = C.ns()
        pool = soup_pool(lang)
        idx = [first]
        while len(idx) < k:
            idx.append(core.concretize(C.field("tok%d" % len(idx), 0, len(pool) - 1)))
        v, parts = {}, []
        for pos, i in enumerate(idx):
            if pos:
                parts.append(" ")
            j = 0
            for piece in _re.split(r"(N\d)", pool[i]):
                if _re.fullmatch(r"N\d", piece):
                    name = "n%d_%d" % (pos, j)
                    j += 1
                    v[name] = C.field(name, 0, 10 ** int(piece[1]) - 1)
                    parts.append((name, int(piece[1])))
                elif piece:
                    parts.append(piece)
        wit = dict(v)
        wit.update({"tok%d" % j: i for j, i in enumerate(idx)})
        text = tmpl(parts, v)
        st = {"RELATIVE_BASE": dates.SDateTime(2015, 6, 15, 12, 30)}
        try:
            res = n.SE.search_dates(text, languages=None if detect else [lang], settings=st)
        except Exception as e:  # noqa
            return C.outcome(False, wit, "raised:%s" % type(e).__name__, {"exception": "%s: %s" % (type(e).__name__, e)})
        if res is None:
            return C.outcome(True, wit, "none")
        ok = isinstance(res, list) and len(res) > 0
        squeeze = lambda x: TStr([i for i in coerce(x).items if not (isinstance(i, str) and i.isspace())])   # noqa
        hay = squeeze(coerce(text))
        pos = 0
        for tup in res:
            sub, dt = tup[0], tup[1]
            if not (isinstance(sub, (str, TStr)) and len(squeeze(sub)) > 0 and isinstance(dt, dates.SDateTime)):
                ok = False
                break
            kpos = hay.find(squeeze(sub), pos)
            if kpos < 0:
                ok = False
                break
            pos = kpos + len(squeeze(sub))
        return C.outcome(bool(ok), wit, "hits:%d" % len(res))
    return fn


SOUP_LANGS = ["en", "fi", "fr", "de", "ru", "pl", "he", "zh", "ja", "th", "tl", "cs", "vi", "hu", "ar", "es"]


# ------------------------------------------------------------------------------------------------ tasks
LOCALES = ["en", "yue", "zh", "ja", "zh-Hans", "zh-Hant", "th", "vi", "ar", "fr", "fi", "he"]


def tasks(tier, seed):
    out = []
    quick = tier == "quick"

    def add(name, fn, args, budget=200):
        out.append({"name": name, "fn": fn, "args": args, "budget_s": budget if quick else budget * 5, "max_paths": 200000})
    for code in LOCALES:
        for ln in ((1, 2, 3) if quick else (1, 2, 3, 4)):
            add("tokens:%s:len=%d" % (code, ln), "h_tokens", {"code": code, "length": ln})
    for code in (["en", "pl", "ja"] if quick else ["en", "pl", "ja", "he", "tl", "zh", "ru"]):
        for mode in ("expand", "merge"):
            add("align:%s:%s" % (code, mode), "h_align", {"code": code, "mode": mode})
    for si in range(len(SPLITTERS)):
        for npc in ((2, 3) if quick else (2, 3, 4)):
            add("split:%r:n=%d" % (SPLITTERS[si], npc), "h_split", {"npieces": npc, "splitter_idx": si, "relative_base": bool((si + npc) % 2)})
    langs = SOUP_LANGS if not quick else [SOUP_LANGS[(seed + 5 * j) % len(SOUP_LANGS)] for j in range(2)]
    for lang in langs:
        npool = len(soup_pool(lang))
        firsts = range(npool) if not quick else [(seed + 3 * j) % npool for j in range(4)]
        for f in firsts:
            # (thorough: 25 s x 5 per first token; the three-token space of a language is covered to the depth that allows)
            add("text-soup:%s:k=%d:first=%d" % (lang, 2 if quick else 3, f), "h_text_soup",
                {"lang": lang, "k": 2 if quick else 3, "first": f}, 100 if quick else 25)
    names = sorted(TEXTS)
    for i, nm in enumerate(names):
        fields = [p[0] for p in TEXTS[nm][0] if not isinstance(p, str)]
        if quick:
            only = fields[(i + seed) % len(fields)]
            add("pipeline:%s:given:%s" % (nm, only), "h_pipeline", {"name": nm, "detect": False, "with_base": bool(i % 2) and nm not in CHAINED,
                                                                    "add_lang": bool(i % 3 == 0), "only": only}, 100)
            if i % 4 == seed % 4:
                add("pipeline:%s:detect:%s" % (nm, only), "h_pipeline", {"name": nm, "detect": True, "with_base": False,
                                                                         "add_lang": True, "only": only}, 100)
        else:
            add("pipeline:%s:given" % nm, "h_pipeline", {"name": nm, "detect": False, "with_base": bool(i % 2) and nm not in CHAINED,
                                                         "add_lang": bool(i % 3 == 0)}, 400)
            add("pipeline:%s:detect" % nm, "h_pipeline", {"name": nm, "detect": True, "with_base": False, "add_lang": True}, 400)
    return out


# ------------------------------------------------------------------------------------------------ replay side
def build_spec(task, viol):
    w = {k: v for k, v in viol["witness"].items() if isinstance(v, (int, bool))}
    return {"task": task["name"], "fn": task["fn"], "args": task["args"], "witness": w}


def native_check(spec):
    from symx import native
    native.import_repo()
    fn, a, w = spec["fn"], spec["args"], spec["witness"]
    import types
    import dateparser.conf as CONF
    import dateparser.languages.loader as LO
    import dateparser.search.search as SS
    import dateparser.search as SE
    n = types.SimpleNamespace(CONF=CONF, LO=LO, SS=SS, SE=SE)
    if fn == "h_tokens":
        loc, pool = _pool(n, a["code"])
        toks = [pool[w["tok%d" % j]] for j in range(a["length"])]
        loc._sentence_split = lambda s, settings=None: ["x"]
        loc._simplify_split_align = lambda sentence, settings=None: (list(toks), [t.lower() for t in toks])
        desc = "Locale(%r).translate_search over tokens %r" % (a["code"], toks)
        try:
            translated, original = loc.translate_search("x", settings=CONF.settings)
        except Exception as e:  # noqa
            return {"violates": True, "detail": "%s raised %s: %s" % (desc, type(e).__name__, e)}
        ok = len(translated) == len(original)
        return {"violates": not ok, "detail": "%s -> %r / %r" % (desc, translated, original)}
    if fn == "h_align":
        loc = LO.LocaleDataLoader().get_locale(a["code"])
        orig, simp, exp_o, exp_s = [], [], [], []
        for i in range(w["n"]):
            e = w["e%d" % i]
            if a["mode"] == "expand":
                orig.append("Wo%d" % i)
                parts = ["wo%d" % i] if e == 1 else ["x%d%s" % (i, c) for c in "abc"[:e]]
                simp += parts
                exp_o += ["Wo%d" % i] + [""] * (e - 1)
                exp_s += parts
            else:
                parts = ["Wo%d%s" % (i, c) for c in "abc"[:e]]
                orig += parts
                simp.append("wo%da" % i if e == 1 else "m%d" % i)
                exp_o += parts
                exp_s += [simp[-1]] + [""] * (e - 1)
        calls = []

        def word_split(string, settings=None):
            calls.append(1)
            return list(orig) if len(calls) == 1 else list(simp)
        loc._word_split = word_split
        desc = "_simplify_split_align with original tokens %r and simplified tokens %r" % (orig, simp)
        try:
            o, s = loc._simplify_split_align("x", settings=CONF.settings)
        except Exception as e:  # noqa
            return {"violates": True, "detail": "%s raised %s: %s" % (desc, type(e).__name__, e)}
        return {"violates": not (o == exp_o and s == exp_s), "detail": "%s -> %r / %r, expected %r / %r" % (desc, o, s, exp_o, exp_s)}
    if fn == "h_split":
        sp = SPLITTERS[a["splitter_idx"]]
        idx = [w["p%d" % j] for j in range(a["npieces"])]
        original = sp.join(PIECES[i][0] for i in idx)
        translated = sp.join(PIECES[i][1] for i in idx)
        order = []

        class _Parser:
            class _settings:
                RELATIVE_BASE = None

            def get_date_data(self, item):
                if item == translated:
                    return {"date_obj": None}
                if item not in order:
                    order.append(item)
                return {"date_obj": _dt.datetime(2015, 1, 1 + order.index(item)) if w.get("parsed_%d" % order.index(item)) else None}

        class _S:
            RELATIVE_BASE = _dt.datetime(2015, 1, 1) if a["relative_base"] else None
        desc = "parse_found_objects on chunk %r (original %r), inner parse bits %r" % (
            translated, original, {k: v for k, v in w.items() if k.startswith("parsed_")})
        try:
            parsed, substrings = SS._ExactLanguageSearch(None).parse_found_objects(
                parser=_Parser(), to_parse=[translated], original=[original], translated=[translated], settings=_S)
        except Exception as e:  # noqa
            return {"violates": True, "detail": "%s raised %s: %s" % (desc, type(e).__name__, e)}
        ok = len(parsed) == len(substrings) and all(s.strip() for s in substrings) and all(p[0]["date_obj"] for p in parsed)
        pos = 0
        for s in substrings:
            k = original.find(s, pos)
            if k < 0:
                ok = False
                break
            pos = k + len(s)
        return {"violates": not ok, "detail": "%s -> substrings %r" % (desc, substrings)}
    if fn == "h_text_soup":
        import re as _re
        pool = soup_pool(a["lang"])
        idx = [a["first"]]
        while len(idx) < a["k"]:
            idx.append(w["tok%d" % len(idx)])
        parts = []
        for pos, i in enumerate(idx):
            if pos:
                parts.append(" ")
            j = 0
            for piece in _re.split(r"(N\d)", pool[i]):
                if _re.fullmatch(r"N\d", piece):
                    parts.append(("n%d_%d" % (pos, j), int(piece[1])))
                    j += 1
                elif piece:
                    parts.append(piece)
        text = render(parts, w)
        st = {"RELATIVE_BASE": _dt.datetime(2015, 6, 15, 12, 30)}
        desc = "search_dates(%r, languages=%r, settings=%r)" % (text, [a["lang"]], st)
        try:
            res = SE.search_dates(text, languages=None if a.get("detect") else [a["lang"]], settings=st)
        except Exception as e:  # noqa
            return {"violates": True, "detail": "%s raised %s: %s" % (desc, type(e).__name__, e)}
        if res is None:
            return {"violates": False, "detail": desc + " -> None"}
        ok = isinstance(res, list) and len(res) > 0
        sq = lambda x: "".join(x.split())   # noqa
        pos = 0
        for tup in res:
            if not (isinstance(tup[0], str) and sq(tup[0]) and isinstance(tup[1], _dt.datetime)):
                ok = False
                break
            kk = sq(text).find(sq(tup[0]), pos)
            if kk < 0:
                ok = False
                break
            pos = kk + len(sq(tup[0]))
        return {"violates": not ok, "detail": "%s -> %r" % (desc, res)}
    # pipeline
    parts, langs = TEXTS[a["name"]]
    if a.get("only"):
        rep = {"d": "12", "m": "03", "H": "10", "n": "15", "Y": "2015"}
        parts = [p if isinstance(p, str) or p[0] == a["only"] else rep[p[0]] for p in parts]
    text = render(parts, w)
    st = {}
    b = C.base_from_witness(w)
    if a["with_base"] and b:
        st["RELATIVE_BASE"] = _dt.datetime(*b)
    desc = "search_dates(%r, languages=%r, settings=%r)" % (text, None if a["detect"] else langs, st)
    try:
        res = SE.search_dates(text, languages=None if a["detect"] else langs, settings=st or None, add_detected_language=a.get("add_lang", False))
    except Exception as e:  # noqa
        return {"violates": True, "detail": "%s raised %s: %s" % (desc, type(e).__name__, e)}
    if res is None:
        return {"violates": False, "detail": desc + " -> None"}
    ok = isinstance(res, list) and len(res) > 0
    sq = lambda x: "".join(x.split())   # noqa
    pos = 0
    for tup in res:
        if not (isinstance(tup[0], str) and sq(tup[0]) and isinstance(tup[1], _dt.datetime)):
            ok = False
            break
        if a.get("add_lang") and (len(tup) != 3 or (not a["detect"] and tup[2] not in langs)):
            ok = False
            break
        k = sq(text).find(sq(tup[0]), pos)
        if k < 0:
            ok = False
            break
        pos = k + len(sq(tup[0]))
    return {"violates": not ok, "detail": "%s -> %r" % (desc, res)}


def classify_known(spec, verdict, known):
    return None
