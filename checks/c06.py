"""C06 — every locale's relative phrases mean what their English canon means (symx: two API runs in one path)."""
import datetime as _dt
import re

import z3

from symx import core, dates, runner
from symx.core import _zi, mkbool
from symx.tmpl import tmpl, render
from . import common as C

ID = "C06"
FID = "C06-phrase-conflicts"
FID2 = "C06-out-of-range-falls-through"
MARGIN = (12, 9988)       # reference years between which no listed direction-less expression can leave 0001..9999


def _directionless(canon):
    """canonical keys such as '1 year' or '2 hour' name an amount without 'ago' / 'in'"""
    return not re.search(r"\bago\b|^in\b", canon)


def _open(fid):
    return any(k["id"] == fid and k.get("status", "open") == "open" for k in runner.load_known())
ENCODED = ["dateparser.date.DateDataParser.get_date_data (called twice per path: the language's phrase and the English "
           "canonical expression, same symbolic reference instant)", "dateparser.languages.locale.Locale.translate/"
           "_get_relative_translations/_clear_future_words/_join/_simplify", "dateparser.languages.dictionary.Dictionary."
           "split/_get_match_relative_regex_cache/_get_split_relative_regex_cache", "dateparser.freshness_date_parser.*",
           "dateutil.relativedelta (through the loader)"]
ASSUMPTIONS = [
    "the vocabulary is ENUMERATED (read from the data files with ast on every run): fixed phrases listed under exactly one "
    "meaning, and counted patterns of relative-type-regex that are literal text around ONE number group (the group is "
    "replaced by a decimal field of 1-3 digits; patterns with other regex syntax are counted as not instantiable); the "
    "solver quantifies over the count and over the reference instant (years 1-9999, incl. microseconds)",
    "obligation: both parses are None, or both give field-wise equal datetimes",
    "quick tier: a seed-rotated slice of the languages + phrases whose accent-stripped form collides with another "
    "vocabulary word + phrases containing punctuation/symbols + every phrase listed in the known finding; thorough tier: all; decimals are outside",
]
NUM = r"(\d+[.,]?\d*)"
NUM2 = r"(\d+)"


def fixed_phrases(lang, locale=None):
    info = C.combined_info(lang, locale)
    out = []
    for w, ms in sorted(C.meanings(info).items()):
        if len(ms) == 1:
            kind, canon = list(ms)[0]
            if kind == "relative" and w.strip() and not any(ch.isdigit() for ch in w):
                out.append((w, canon))
    return out


def counted_patterns(lang, locale=None):
    """(literal prefix, literal suffix, canonical template) for patterns that are plain text around one number group"""
    info = C.combined_info(lang, locale)
    out, skipped = [], 0
    seen = set()
    for canon, pats in info.get("relative-type-regex", {}).items():
        for p in pats:
            for grp in (NUM, NUM2):
                if p.count(grp) == 1:
                    pre, suf = p.split(grp)
                    break
            else:
                skipped += 1
                continue
            lit = pre + suf
            if re.search(r"[\\()\[\]{}|?*+^$.]", lit):
                skipped += 1
                continue
            if "\\1" not in canon or (pre, suf) in seen:
                continue
            seen.add((pre, suf))
            out.append((pre, suf, canon))
    return out, skipped


def inherited_under_extended_keys(lang, locale):
    """phrases/patterns the LANGUAGE lists under a canonical key that the regional locale's overlay extends as well: a
    locale keeps what it inherits (lists are concatenated by the overlay, not replaced)"""
    over = C.language_info(lang).get("locale_specific", {}).get(locale, {})
    keys_f, keys_c = set(over.get("relative-type", {})), set(over.get("relative-type-regex", {}))
    base_f = [(w, c) for w, c in fixed_phrases(lang) if c in keys_f]
    loc_f = dict(fixed_phrases(lang, locale))
    base_c = [(pre, suf, c) for pre, suf, c in counted_patterns(lang)[0] if c in keys_c]
    loc_c = {(pre, suf) for pre, suf, _ in counted_patterns(lang, locale)[0]}
    # (a phrase that the merged vocabulary lists under two meanings is not in fixed_phrases(lang, locale): skipped)
    return [(w, c) for w, c in base_f if loc_f.get(w) == c], [(pre, suf, c) for pre, suf, c in base_c if (pre, suf) in loc_c]


def _eq(a, b):
    if a is None or b is None:
        return a is None and b is None
    if (a.tzinfo is None) != (b.tzinfo is None):
        return False
    return z3.And(*[_zi(getattr(a, f)) == _zi(getattr(b, f)) for f in dates._FIELDS])


def h_fixed(lang, locale, phrase, canon, warm=False):
    """warm: the BASE language is used first, with the same settings (what a process that handled the language before a
    regional locale of it looks like)"""
    def fn():
        b = C.sym_base("b")
        if _directionless(canon) and _open(FID2):
            # region of the open finding (re-confirmed natively from its listed example on every run)
            core.assume(mkbool(z3.And(_zi(b.year) >= MARGIN[0], _zi(b.year) <= MARGIN[1])))
        st = {"RELATIVE_BASE": b}
        if warm and locale:
            C.api(phrase, languages=[lang], settings=st)
        x = C.api(phrase, languages=None if locale else [lang], locales=[locale] if locale else None, settings=st)
        y = C.api(canon, languages=["en"], settings=st)
        wit = C.base_witness(b)
        return C.outcome(_eq(x.date_obj, y.date_obj), wit, "none" if y.date_obj is None else "value")
    return fn


def h_counted(lang, locale, pre, suf, canon, width, warm=False):
    def fn():
        b = C.sym_base("b")
        if _directionless(canon) and _open(FID2):
            core.assume(mkbool(z3.And(_zi(b.year) >= 10 ** width * 10 + 2, _zi(b.year) <= 9998 - 10 ** width * 10)))
        n = C.field("n", 0, 10 ** width - 1)
        st = {"RELATIVE_BASE": b}
        s = tmpl([pre, ("n", width), suf], {"n": n})
        cpre, csuf = canon.split("\\1")
        c = tmpl([cpre, ("n", width), csuf], {"n": n})
        if warm and locale:
            C.api(c, languages=[lang], settings=st)
        x = C.api(s, languages=None if locale else [lang], locales=[locale] if locale else None, settings=st)
        y = C.api(c, languages=["en"], settings=st)
        wit = dict(C.base_witness(b), n=n)
        return C.outcome(_eq(x.date_obj, y.date_obj), wit, "none" if y.date_obj is None else "value")
    return fn


def _strip(s):
    import unicodedata
    return "".join(c for c in unicodedata.normalize("NFKD", s) if unicodedata.category(c) != "Mn")


def collision_phrases(lang):
    info = C.combined_info(lang)
    ms = C.meanings(info)
    by_norm = {}
    for w, m in ms.items():
        by_norm.setdefault(_strip(w), []).append((w, m))
    out = []
    for w, canon in fixed_phrases(lang):
        if any(w2 != w and m2 != {("relative", canon)} for w2, m2 in by_norm.get(_strip(w), [])):
            out.append((w, canon))
    return out


def _known_entries():
    for k in runner.load_known():
        if k["id"] == FID and k.get("status", "open") == "open":
            return k.get("entries", [])
    return []


def tasks(tier, seed):
    out = []
    quick = tier == "quick"
    order, locd = C.languages_index()
    stats = {"not_instantiable_patterns": 0}
    visited = set()

    def add_fixed(lang, locale, w, canon):
        code = locale or lang
        if (code, w) in visited:
            return
        visited.add((code, w))
        out.append({"name": "fixed:%s:%s" % (code, w), "fn": "h_fixed", "budget_s": 90 if quick else 400, "max_paths": 3000,
                    "args": {"lang": lang, "locale": locale, "phrase": w, "canon": canon}})
        if locale:
            out.append({"name": "fixed-after-base:%s:%s" % (code, w), "fn": "h_fixed", "budget_s": 90 if quick else 400,
                        "max_paths": 3000, "args": {"lang": lang, "locale": locale, "phrase": w, "canon": canon, "warm": True}})

    def add_counted(lang, locale, pre, suf, canon, width):
        code = locale or lang
        key = (code, pre, suf, width)
        if key in visited:
            return
        visited.add(key)
        out.append({"name": "counted:%s:%s#%s:w%d" % (code, pre, suf, width), "fn": "h_counted", "budget_s": 90 if quick else 400,
                    "max_paths": 3000, "args": {"lang": lang, "locale": locale, "pre": pre, "suf": suf, "canon": canon, "width": width}})
        if locale:
            out.append({"name": "counted-after-base:%s:%s#%s:w%d" % (code, pre, suf, width), "fn": "h_counted",
                        "budget_s": 90 if quick else 400, "max_paths": 3000,
                        "args": {"lang": lang, "locale": locale, "pre": pre, "suf": suf, "canon": canon, "width": width, "warm": True}})
    langs = list(order)
    if quick:
        k = 6
        start = (seed * k) % len(langs)
        langs = [langs[(start + j) % len(langs)] for j in range(k)]
    for lang in langs:
        fx = fixed_phrases(lang)
        pats, sk = counted_patterns(lang)
        stats["not_instantiable_patterns"] += sk
        if quick:
            fx = [fx[(seed * 7 + 5 * j) % len(fx)] for j in range(min(8, len(fx)))] if fx else []
            pats = [pats[(seed * 3 + 4 * j) % len(pats)] for j in range(min(6, len(pats)))] if pats else []
        for w, canon in fx:
            add_fixed(lang, None, w, canon)
        for j, (pre, suf, canon) in enumerate(pats):
            for width in ([1, 2, 3] if not quick else [[1, 2, 3][(j + seed) % 3]]):
                add_counted(lang, None, pre, suf, canon, width)
        if not quick:
            base_fx = {w for w, _ in fixed_phrases(lang)}
            for loc in locd.get(lang, []):
                for w, canon in fixed_phrases(lang, loc):
                    if w not in base_fx:
                        add_fixed(lang, loc, w, canon)
    # regional locales whose overlay extends relative keys: what they inherit under those keys must still parse
    ext = [(lang, loc) for lang in order for loc in locd.get(lang, [])
           if set(C.language_info(lang).get("locale_specific", {}).get(loc, {})) & {"relative-type", "relative-type-regex"}]
    for lang, loc in ext:
        # the locale's OWN additions (fixed phrases and counted patterns its overlay adds)
        base_f = {w for w, _ in fixed_phrases(lang)}
        base_c = {(pre, suf) for pre, suf, _ in counted_patterns(lang)[0]}
        own_f = [(w, c) for w, c in fixed_phrases(lang, loc) if w not in base_f]
        own_c = [(pre, suf, c) for pre, suf, c in counted_patterns(lang, loc)[0] if (pre, suf) not in base_c]
        if quick:
            own_f = [own_f[(seed + 3 * j) % len(own_f)] for j in range(min(3, len(own_f)))] if own_f else []
            own_c = [own_c[(seed + 3 * j) % len(own_c)] for j in range(min(2, len(own_c)))] if own_c else []
        for w, canon in own_f:
            add_fixed(lang, loc, w, canon)
        for pre, suf, canon in own_c:
            add_counted(lang, loc, pre, suf, canon, 2)
        fxs, cps = inherited_under_extended_keys(lang, loc)
        if quick:
            fxs = [fxs[(seed + 3 * j) % len(fxs)] for j in range(min(3, len(fxs)))] if fxs else []
            cps = [cps[(seed + 3 * j) % len(cps)] for j in range(min(2, len(cps)))] if cps else []
        for w, canon in fxs:
            add_fixed(lang, loc, w, canon)
        for pre, suf, canon in cps:
            add_counted(lang, loc, pre, suf, canon, 2)
    if quick:
        import unicodedata
        for lang in order:
            for w, canon in collision_phrases(lang):
                add_fixed(lang, None, w, canon)
            # phrases with punctuation / symbols: what sanitising and tokenising rewrite before the vocabulary is consulted
            for w, canon in fixed_phrases(lang):
                if any(not (ch.isalnum() or ch.isspace() or unicodedata.category(ch).startswith("M")) for ch in w):
                    add_fixed(lang, None, w, canon)
            # counted patterns spelled with a format character (ZWNJ/ZWJ, ...)
            for pre, suf, canon in counted_patterns(lang)[0]:
                if any(unicodedata.category(ch) == "Cf" for ch in pre + suf):
                    add_counted(lang, None, pre, suf, canon, 2)
    for e in _known_entries():
        code = e["locale"]
        lang = code if code in order else code.rsplit("-", 1)[0]
        if e["kind"] == "fixed":
            for w, canon in fixed_phrases(lang, None if code == lang else code):
                if w == e["phrase"]:
                    add_fixed(lang, None if code == lang else code, w, canon)
        else:
            add_counted(lang, None, e["pre"], e["suf"], e["canon"], 1)
    return out


def build_spec(task, viol):
    w = C.ints(viol["witness"])
    a = task["args"]
    if task["fn"] == "h_fixed":
        s, c = a["phrase"], a["canon"]
    else:
        s = "%s%0*d%s" % (a["pre"], a["width"], w["n"], a["suf"])
        cpre, csuf = a["canon"].split("\\1")
        c = "%s%0*d%s" % (cpre, a["width"], w["n"], csuf)
    return {"task": task["name"], "fn": task["fn"], "args": a, "witness": w, "phrase": s, "canon": c,
            "base": C.base_from_witness(w)}


def native_check(spec):
    from symx import native
    a = spec["args"]
    st = {"RELATIVE_BASE": spec["base"]} if spec.get("base") else {}
    kw = {"locales": [a["locale"]]} if a["locale"] else {"languages": [a["lang"]]}
    if a.get("warm") and a["locale"]:
        # the base language is used first, with the same settings (same process)
        native.call_api({"string": spec["phrase"] if spec["fn"] == "h_fixed" else spec["canon"], "languages": [a["lang"]], "settings": st})
    x = native.call_api(dict({"string": spec["phrase"], "settings": st}, **kw))
    y = native.call_api({"string": spec["canon"], "languages": ["en"], "settings": st})
    code = a["locale"] or a["lang"]
    desc = "%sparse(%r, %s, base=%r) -> %r ; parse(%r, ['en']) -> %r" % (
        ("after a call with languages=[%r] and the same settings: " % a["lang"]) if a.get("warm") and a["locale"] else "",
        spec["phrase"], code, spec.get("base"), x.get("date_obj", x.get("exception")), spec["canon"], y.get("date_obj", y.get("exception")))
    if "exception" in x or "exception" in y:
        return {"violates": True, "detail": desc}
    return {"violates": x["date_obj"] != y["date_obj"], "detail": desc}


def classify_known(spec, verdict, known):
    a = spec["args"]
    code = a["locale"] or a["lang"]
    if FID2 in {k["id"] for k in known} and _directionless(a["canon"]) and spec.get("base") \
            and not (MARGIN[0] <= spec["base"][0] <= MARGIN[1]):
        return FID2
    for k in known:
        if k["id"] != FID:
            continue
        for e in k.get("entries", []):
            if e["locale"] != code:
                continue
            if spec["fn"] == "h_fixed" and e["kind"] == "fixed" and e["phrase"] == a["phrase"]:
                return FID
            if spec["fn"] == "h_counted" and e["kind"] == "counted" and e["pre"] == a["pre"] and e["suf"] == a["suf"]:
                return FID
    return None
