"""C10 — strictness only filters; strict results never borrow from the clock (symx: three API runs in one path)."""
import datetime as _dt
import itertools

import z3

from symx import core, dates
from symx.core import _zi, mkbool, SEnum
from symx.tmpl import tmpl, render
from . import common as C

ID = "C10"
ENCODED = ["dateparser.date.DateDataParser.get_date_data (called three times per path: lax with reference b1, strict with "
           "b1, strict with an independent b2)", "dateparser.parser._check_strict_parsing", "dateparser.parser._parser._results/"
           "_get_datetime_obj_params", "dateparser.parser._no_spaces_parser.parse", "dateparser.utils._get_missing_parts",
           "dateparser.date.parse_with_formats", "dateparser.date.get_date_from_timestamp"]
ASSUMPTIONS = [
    "bounded claim: English templates for every non-empty subset of {weekday, day, month, year, time} (day 1-31, 4-digit "
    "year 1000-9999, HH:MM), strptime formats with and without missing parts, 10-digit timestamps, 8-digit no-space "
    "dates; STRICT_PARSING and every non-empty REQUIRE_PARTS subset; two independent symbolic reference instants "
    "(RELATIVE_BASE) and the clock stub",
    "a template 'states' a part iff the part is in the subset it was rendered from; where a bare day number appears "
    "without a month name only day numbers 13-31 are used (a smaller number could be read as a month)",
    "the multilingual corpus of the property is outside: letters are not symbolic",
    "date theory (symx.dates) stands for CPython datetime/calendar; symbolic regex stands for re/regex on templates",
]
PARTS = ["weekday", "day", "month", "year", "time"]
REQ = [list(c) for n in (1, 2, 3) for c in itertools.combinations(["day", "month", "year"], n)]


def template(subset):
    p = []
    if "weekday" in subset:
        p.append("Monday")
    if "day" in subset:
        p.append(("d", 2))
    if "month" in subset:
        p.append("April")
    if "year" in subset:
        p.append(("Y", 4))
    if "time" in subset:
        p += [("H", 2), ":", ("M", 2)]
    out = []
    for i, x in enumerate(p):
        if i and not (x == ":" or p[i - 1] == ":"):
            out.append(" ")
        out.append(x)
    return out


def _same(a, b, fields=("year", "month", "day", "hour", "minute", "second", "microsecond")):
    return z3.And(*[_zi(getattr(a, f)) == _zi(getattr(b, f)) for f in fields])


def _strict_settings(strict):
    return {"STRICT_PARSING": True} if strict == "STRICT" else {"REQUIRE_PARTS": list(strict)}


def _relation(lax, s1, s2, strict, stated, ambiguous):
    """the three obligations of the property on the three results"""
    required = ["day", "month", "year"] if strict == "STRICT" else list(strict)
    conds = []
    # (1) strictness only filters
    if s1 is not None:
        if lax is None:
            return False, "strict result without a lax result"
        conds.append(_same(s1, lax))
        conds.append((s1.tzinfo is None) == (lax.tzinfo is None))
    # (2) a strict result exists only if the string states the required parts
    if not ambiguous and s1 is not None and not all(r in stated for r in required):
        return False, "strict result although %s not stated" % [r for r in required if r not in stated]
    # (3) the same for every reference time (on the required parts)
    # (with a partial REQUIRE_PARTS the non-required parts are legitimately borrowed from the reference and may make the
    #  date invalid for one reference only, so None-vs-value is only checked when all three parts are required)
    if len(required) == 3 and (s1 is None) != (s2 is None):
        return False, "strict result depends on the reference time (None vs value)"
    if s1 is not None and s2 is not None:
        conds.append(_same(s1, s2, tuple(required)))
    return (z3.And(*conds) if conds else True), ""


def h_abs(subset, strict):
    subset = list(subset)
    parts = template(subset)
    ambiguous = False

    def fn():
        b1, b2 = C.sym_base("b", 1000, 9000), C.sym_base("c", 1000, 9000)
        v = {}
        if "day" in subset:
            # a bare number without a month name could be read as a month: only day numbers above 12 are used there
            v["d"] = C.field("d", 13 if "month" not in subset else 1, 31)
        if "year" in subset:
            v["Y"] = C.field("Y", 1000, 9999)
        if "time" in subset:
            v["H"], v["M"] = C.field("H", 0, 23), C.field("M", 0, 59)
        s = tmpl(parts, v)
        base = {"TIMEZONE": "UTC"}
        lax = C.api(s, languages=["en"], settings=dict(base, RELATIVE_BASE=b1)).date_obj
        s1 = C.api(s, languages=["en"], settings=dict(base, RELATIVE_BASE=b1, **_strict_settings(strict))).date_obj
        s2 = C.api(s, languages=["en"], settings=dict(base, RELATIVE_BASE=b2, **_strict_settings(strict))).date_obj
        wit = dict(v)
        wit.update(C.base_witness(b1, "b"))
        wit.update(C.base_witness(b2, "c"))
        ok, why = _relation(lax, s1, s2, strict, subset, ambiguous)
        return C.outcome(ok, wit, "strict:%s" % ("none" if s1 is None else "value"), {"why": why})
    return fn


FMT_CASES = {
    "%Y": ([("Y", 4)], ["year"]),
    "%B %Y": (["March ", ("Y", 4)], ["month", "year"]),
    "%d %B": ([("d", 2), " March"], ["day", "month"]),
    "%d/%m/%Y": ([("d", 2), "/03/", ("Y", 4)], ["day", "month", "year"]),
    "%H:%M": ([("H", 2), ":", ("M", 2)], []),
    "%m-%Y": (["03-", ("Y", 4)], ["month", "year"]),
    # clock-time and other directives next to partial dates (their letters differ from date directives only in case)
    "%d %Y %H:%M": ([("d", 2), " ", ("Y", 4), " ", ("H", 2), ":", ("M", 2)], ["day", "year"]),
    "%Y %H:%M:%S": ([("Y", 4), " ", ("H", 2), ":", ("M", 2), ":45"], ["year"]),
    "%d %b %I:%M %p": ([("d", 2), " Mar 10:", ("M", 2), " PM"], ["day", "month"]),
    "%y-%m": (["15-", ("m", 2)], ["month", "year"]),
}


def h_fmt(fmt, strict):
    parts, stated = FMT_CASES[fmt]

    def fn():
        b1, b2 = C.sym_base("b", 1000, 9000), C.sym_base("c", 1000, 9000)
        v = {}
        for p in parts:
            if not isinstance(p, str):
                lo, hi = {"Y": (1000, 9999), "d": (1, 31), "H": (0, 23), "M": (0, 59), "m": (1, 12)}[p[0]]
                v[p[0]] = C.field(p[0], lo, hi)
        s = tmpl(parts, v)
        base = {"TIMEZONE": "UTC"}
        # the custom-format parser takes missing parts from the SYSTEM CLOCK: two independent clocks are modelled by
        # running the strict parse twice and letting the clock stub differ between the runs (fresh clock per call)
        lax = C.api(s, languages=["en"], settings=dict(base, RELATIVE_BASE=b1), date_formats=[fmt]).date_obj
        s1 = C.api(s, languages=["en"], settings=dict(base, RELATIVE_BASE=b1, **_strict_settings(strict)), date_formats=[fmt]).date_obj
        clk1 = core.CUR.notes.pop("clock", None)
        s2 = C.api(s, languages=["en"], settings=dict(base, RELATIVE_BASE=b2, **_strict_settings(strict)), date_formats=[fmt]).date_obj
        clk2 = core.CUR.notes.get("clock")
        if clk1 is not None:
            core.CUR.notes["clock"] = clk1
        wit = dict(v)
        wit.update(C.base_witness(b1, "b"))
        wit.update(C.base_witness(b2, "c"))
        if clk2 is not None and clk2 is not clk1:
            wit.update(dates.witness_of(clk2, "clock2"))
        ok, why = _relation(lax, s1, s2, strict, stated, False)
        return C.outcome(ok, wit, "strict:%s" % ("none" if s1 is None else "value"), {"why": why})
    return fn


def h_other(kind, strict):
    def fn():
        b1, b2 = C.sym_base("b", 1000, 9000), C.sym_base("c", 1000, 9000)
        base = {"TIMEZONE": "UTC"}
        if kind == "timestamp":
            v = {"n": C.field("n", 10 ** 9, 10 ** 10 - 1)}
            s = tmpl([("n", 10)], v)
            stated = ["day", "month", "year"]
        else:
            v = C.date_fields(ymin=1000, ymax=9999)
            s = tmpl([("Y", 4), ("m", 2), ("d", 2)], v)
            stated = ["day", "month", "year"]
            base["PARSERS"] = ["no-spaces-time"]
        lax = C.api(s, languages=["en"], settings=dict(base, RELATIVE_BASE=b1)).date_obj
        s1 = C.api(s, languages=["en"], settings=dict(base, RELATIVE_BASE=b1, **_strict_settings(strict))).date_obj
        s2 = C.api(s, languages=["en"], settings=dict(base, RELATIVE_BASE=b2, **_strict_settings(strict))).date_obj
        wit = dict(v)
        wit.update(C.base_witness(b1, "b"))
        wit.update(C.base_witness(b2, "c"))
        ok, why = _relation(lax, s1, s2, strict, stated, False)
        if s1 is None:
            ok, why = False, "a string stating day, month and year got no strict result"
        return C.outcome(ok, wit, "strict:%s" % ("none" if s1 is None else "value"), {"why": why})
    return fn


# ------------------------------------------------------------------------------------------------ kernel
class _St:
    pass


def h_kernel():
    """_check_strict_parsing raises iff a required part is missing (all subsets, symbolic flags)"""
    def fn():
        n = C.ns()
        miss = [core.fresh_bool("miss_" + p) for p in ("day", "month", "year")]
        req = [core.fresh_bool("req_" + p) for p in ("day", "month", "year")]
        strict = core.fresh_bool("strict")
        names = ["day", "month", "year"]
        # the kernel takes concrete lists: enumerate them by forking on the symbolic bits
        missing = [p for p, b in zip(names, miss) if core.branch(b)]
        required = [p for p, b in zip(names, req) if core.branch(b)]
        st = _St()
        st.STRICT_PARSING = bool(core.branch(strict))
        st.REQUIRE_PARTS = required
        try:
            n.P._check_strict_parsing(missing, st)
            raised = False
        except ValueError:
            raised = True
        want = (st.STRICT_PARSING and bool(missing)) or any(r in missing for r in required)
        return C.outcome(raised == want, {"strict": strict, **{"miss_" + p: b for p, b in zip(names, miss)},
                                          **{"req_" + p: b for p, b in zip(names, req)}}, "kernel")
    return fn


DIRECTIVES = ["%a", "%A", "%w", "%d", "%b", "%B", "%m", "%y", "%Y", "%H", "%I", "%p", "%M", "%S", "%f", "%z", "%Z", "%j",
              "%U", "%W", "%D", "%e", "%h", "%G", "%u", "%V"]
_STATES = {"day": ("%d", "%j"), "month": ("%b", "%B", "%m"), "year": ("%y", "%Y")}


def h_missing(k):
    """_get_missing_parts on a format of k directives chosen by symbolic indices: a part is missing iff none of ITS
    directives (case-sensitive) is in the format"""
    def fn():
        n = C.ns()
        idx = [core.concretize(C.field("i%d" % j, 0, len(DIRECTIVES) - 1)) for j in range(k)]
        fmt = " ".join(DIRECTIVES[i] for i in idx)
        got = n.U._get_missing_parts(fmt)
        want = [p for p in ("day", "month", "year") if not any(DIRECTIVES[i] in _STATES[p] for i in idx)]
        return C.outcome(list(got) == want, {"i%d" % j: i for j, i in enumerate(idx)}, "missing")
    return fn


# ------------------------------------------------------------------------------------------------ task lists
def tasks(tier, seed):
    out = []
    quick = tier == "quick"

    def add(name, fn, args, budget=240):
        out.append({"name": name, "fn": fn, "args": args, "budget_s": budget if quick else budget * 5, "max_paths": 20000})
    add("kernel:_check_strict_parsing", "h_kernel", {})
    add("kernel:_get_missing_parts", "h_missing", {"k": 2 if quick else 3})
    subsets = [list(c) for n in range(1, 6) for c in itertools.combinations(PARTS, n)]
    for i, sub in enumerate(subsets):
        stricts = ["STRICT"] + REQ
        if quick:
            stricts = [stricts[(seed + i) % len(stricts)]] + (["STRICT"] if (seed + i) % len(stricts) else [])
        for st in stricts:
            add("abs:%s:%s" % ("+".join(sub), st if st == "STRICT" else "REQ=" + "+".join(st)), "h_abs",
                {"subset": sub, "strict": st})
    for j, fmt in enumerate(FMT_CASES):
        sts = ["STRICT"] + REQ if not quick else ["STRICT", REQ[(seed + j) % len(REQ)]]
        if quick and "%d" in fmt and not any(x in fmt for x in ("%m", "%b", "%B")) and ["day"] in REQ and ["day"] not in sts:
            sts.append(["day"])        # a stated day next to a completed month: the day must not depend on the clock
        for st in sts:
            add("fmt:%s:%s" % (fmt, st if st == "STRICT" else "REQ=" + "+".join(st)), "h_fmt", {"fmt": fmt, "strict": st})
    for kind in ("timestamp", "nospace"):
        for st in (["STRICT"] + REQ if not quick else ["STRICT", REQ[seed % len(REQ)]]):
            add("%s:%s" % (kind, st if st == "STRICT" else "REQ=" + "+".join(st)), "h_other", {"kind": kind, "strict": st})
    return out


# ------------------------------------------------------------------------------------------------ replay side
def build_spec(task, viol):
    w = C.ints(viol["witness"])
    a = task["args"]
    fn = task["fn"]
    if fn == "h_kernel":
        return {"task": task["name"], "fn": fn, "witness": {k: bool(v) for k, v in viol["witness"].items()}}
    if fn == "h_missing":
        return {"task": task["name"], "fn": fn, "witness": w}
    fmts = None
    extra = {}
    ambiguous = False
    if fn == "h_abs":
        parts, stated = template(a["subset"]), list(a["subset"])
        ambiguous = False
    elif fn == "h_fmt":
        parts, stated = FMT_CASES[a["fmt"]]
        fmts = [a["fmt"]]
    elif a["kind"] == "timestamp":
        parts, stated = [("n", 10)], ["day", "month", "year"]
    else:
        parts, stated = [("Y", 4), ("m", 2), ("d", 2)], ["day", "month", "year"]
        extra = {"PARSERS": ["no-spaces-time"]}
    st = dict({"TIMEZONE": "UTC"}, **extra)
    return {"task": task["name"], "fn": fn, "witness": w, "string": render(parts, w), "formats": fmts, "base": st,
            "strict": a["strict"], "stated": stated, "ambiguous": ambiguous, "b1": C.base_from_witness(w, "b"),
            "b2": C.base_from_witness(w, "c"), "clock": C.clock_from_witness(w), "clock2": C.base_from_witness(w, "clock2"),
            "must_parse": fn == "h_other"}


def native_check(spec):
    from symx import native
    if spec["fn"] == "h_missing":
        native.import_repo()
        from dateparser.utils import _get_missing_parts
        idx = [spec["witness"][k] for k in sorted(spec["witness"]) if k.startswith("i")]
        fmt = " ".join(DIRECTIVES[i] for i in idx)
        want = [p for p in ("day", "month", "year") if not any(DIRECTIVES[i] in _STATES[p] for i in idx)]
        got = list(_get_missing_parts(fmt))
        return {"violates": got != want, "detail": "_get_missing_parts(%r) -> %r, expected %r" % (fmt, got, want)}
    if spec["fn"] == "h_kernel":
        native.import_repo()
        from dateparser.parser import _check_strict_parsing
        w = spec["witness"]

        class S:
            STRICT_PARSING = w.get("strict", False)
            REQUIRE_PARTS = [p for p in ("day", "month", "year") if w.get("req_" + p)]
        missing = [p for p in ("day", "month", "year") if w.get("miss_" + p)]
        try:
            _check_strict_parsing(missing, S)
            raised = False
        except ValueError:
            raised = True
        want = (S.STRICT_PARSING and bool(missing)) or any(r in missing for r in S.REQUIRE_PARTS)
        return {"violates": raised != want, "detail": "_check_strict_parsing(%r, strict=%r, require=%r) raised=%r, expected %r"
                % (missing, S.STRICT_PARSING, S.REQUIRE_PARTS, raised, want)}
    strict = spec["strict"]
    sset = {"STRICT_PARSING": True} if strict == "STRICT" else {"REQUIRE_PARTS": list(strict)}
    required = ["day", "month", "year"] if strict == "STRICT" else list(strict)

    def run(b, st_extra, clock):
        st = dict(spec["base"], RELATIVE_BASE=b, **st_extra)
        r = native.call_api({"string": spec["string"], "languages": ["en"], "settings": st, "date_formats": spec["formats"]}, clock)
        return r
    clk1 = spec.get("clock") or [2001, 5, 17, 3, 4, 5, 0]
    clk2 = spec.get("clock2") or spec.get("clock") or [2001, 5, 17, 3, 4, 5, 0]
    lax, s1, s2 = run(spec["b1"], {}, clk1), run(spec["b1"], sset, clk1), run(spec["b2"], sset, clk2)
    desc = "parse(%r, formats=%r) lax/base %s -> %r | strict %s base %s -> %r | base %s clock %s -> %r" % (
        spec["string"], spec["formats"], spec["b1"], lax.get("date_obj", lax), sset, spec["b1"], s1.get("date_obj", s1),
        spec["b2"], clk2, s2.get("date_obj", s2))
    for r in (lax, s1, s2):
        if "exception" in r:
            return {"violates": True, "detail": desc}
    L, A, B = lax["date_obj"], s1["date_obj"], s2["date_obj"]
    bad = False
    if A is not None and (L is None or A != L):
        bad = True
    if not spec["ambiguous"] and A is not None and not all(r in spec["stated"] for r in required):
        bad = True
    if len(required) == 3 and (A is None) != (B is None):
        bad = True
    if A is not None and B is not None and any(getattr(A, f) != getattr(B, f) for f in required):
        bad = True
    if spec.get("must_parse") and A is None:
        bad = True
    return {"violates": bad, "detail": desc}


def classify_known(spec, verdict, known):
    return None
