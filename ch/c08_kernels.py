"""CrossHair harnesses (second engine, cross-check of symx) for the completion kernels of C08.
Run by checks/c08.py:  crosshair check --report_all --per_condition_timeout T ch/c08_kernels.py
The functions under test are the repository's own (imported from $VERIF_REPO)."""
import calendar
import os
import sys
from datetime import datetime

sys.path.insert(0, os.environ.get("VERIF_REPO", "/repo"))
from dateparser.utils import (  # noqa: E402
    get_last_day_of_month,
    set_correct_day_from_settings,
    set_correct_month_from_settings,
)

PREFS = ("current", "first", "last")


class _St:
    def __init__(self, day=None, month=None):
        self.PREFER_DAY_OF_MONTH = day
        self.PREFER_MONTH_OF_YEAR = month


def _dim(y: int, m: int) -> int:
    if m == 2:
        return 29 if (y % 4 == 0 and (y % 100 != 0 or y % 400 == 0)) else 28
    return 30 if m in (4, 6, 9, 11) else 31


def last_day(y: int, m: int) -> int:
    """
    pre: 1 <= y <= 9999 and 1 <= m <= 12
    post: _ == _dim(y, m)
    """
    return get_last_day_of_month(y, m)


def correct_day(y: int, m: int, d: int, cur: int, pref: int) -> int:
    """
    pre: 1 <= y <= 9999 and 1 <= m <= 12 and 1 <= d <= _dim(y, m) and 1 <= cur <= 31 and 0 <= pref <= 2
    post: _ == (1 if pref == 1 else (_dim(y, m) if pref == 2 else min(cur, _dim(y, m))))
    """
    return set_correct_day_from_settings(datetime(y, m, d), _St(day=PREFS[pref]), current_day=cur).day


def correct_month(y: int, m: int, d: int, cur: int, pref: int) -> int:
    """
    pre: 1 <= y <= 9999 and 1 <= m <= 12 and 1 <= d <= _dim(y, m) and 1 <= cur <= 12 and 0 <= pref <= 2
    post: _ == ((1 if pref == 1 else (12 if pref == 2 else cur)) if d <= _dim(y, (1 if pref == 1 else (12 if pref == 2 else cur))) else 12)
    """
    return set_correct_month_from_settings(datetime(y, m, d), _St(month=PREFS[pref]), current_month=cur).month
