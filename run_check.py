#!/verif/.venv/bin/python
"""Dispatcher:  run_check.py <ID> --tier quick|thorough      (the registered quick/thorough commands)
                run_check.py <ID> --replay <spec.json>        (replay one concrete counterexample natively)
Exit 0: property held on everything explored (listed known findings are printed as KNOWN-FINDING lines)
Exit 1: 'VIOLATION property=<ID> replay=<path>' — a counterexample reproduced on the uninstrumented repository
Exit 3: harness error (nothing reachable, engine failure, a counterexample that does not reproduce)"""
import argparse
import importlib
import json
import os
import sys
import time

VERIF = os.path.dirname(os.path.abspath(__file__))


def _bootstrap():
    """make sure the overlay venv exists and we run inside it"""
    py = os.path.join(VERIF, ".venv", "bin", "python")
    if os.path.realpath(sys.prefix) != os.path.realpath(os.path.join(VERIF, ".venv")) or not os.path.exists(py):
        ok = os.path.exists(py)
        if ok:
            import subprocess
            ok = subprocess.run([py, "-c", "import z3, crosshair, regex"], capture_output=True).returncode == 0
        if not ok:
            import subprocess
            subprocess.run(["sh", os.path.join(VERIF, "setup.sh")], check=True, stdout=subprocess.DEVNULL)
        if os.environ.get("VERIF_BOOTSTRAPPED") != "1":
            os.environ["VERIF_BOOTSTRAPPED"] = "1"
            os.execv(py, [py] + sys.argv)


def main():
    ap = argparse.ArgumentParser()
    ap.add_argument("id")
    ap.add_argument("--tier", default=os.environ.get("VERIF_TIER", "quick"))
    ap.add_argument("--replay")
    ap.add_argument("--only", help="substring filter on task names (debugging)")
    ap.add_argument("--procs", type=int, default=0)
    a = ap.parse_args()
    sys.path.insert(0, VERIF)
    os.environ.setdefault("PYTHONHASHSEED", "0")
    mod = importlib.import_module("checks.%s" % a.id.lower())
    if a.replay:
        spec = json.load(open(a.replay))
        v = mod.native_check(spec)
        print("REPLAY " + json.dumps(v, default=str))
        return 1 if v.get("violates") else 0
    seed = int(os.environ.get("VERIF_SEED", "0") or 0)
    if hasattr(mod, "main"):
        return mod.main(a.tier, seed, a)
    from symx import driver
    return driver.run_symx_check(mod, a.tier, seed, only=a.only, procs=a.procs or None)


if __name__ == "__main__":
    _bootstrap()
    sys.exit(main())
