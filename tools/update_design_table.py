#!/usr/bin/env python3
"""rewrites the seeded-change table of DESIGN.md §6 from tools/seed_table.py"""
import os
import re
import subprocess
import sys

V = os.path.dirname(os.path.dirname(os.path.abspath(__file__)))
tab = subprocess.run([sys.executable, os.path.join(V, "tools", "seed_table.py")], capture_output=True, text=True).stdout.rstrip("\n")
p = os.path.join(V, "DESIGN.md")
s = open(p).read()
new, n = re.subn(r"\| seed \| round \| files changed.*?\n\d+ seeds: [^\n]*", lambda m: tab, s, flags=re.S)
assert n == 1
open(p, "w").write(new)
print(tab.splitlines()[-1])
