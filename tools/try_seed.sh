#!/bin/sh
# usage: try_seed.sh <seed-name> <check id> [run_check args...]   — applies a seed in the scratch worktree /tmp/mut and runs one check on it
S=$1; C=$2; shift 2
W=/tmp/mut
[ -d $W ] || git -C /repo worktree add -f --detach $W HEAD >/dev/null 2>&1
git -C $W checkout -q --force --detach $(git -C /repo rev-parse HEAD) && git -C $W reset -q --hard && git -C $W clean -fdq
P=/verif/seeded/$S/patch_on_fixed_head.diff; [ -f $P ] || P=/verif/seeded/$S/patch.diff
git -C $W apply $P || { echo "APPLY FAILED"; exit 2; }
cd /verif && VERIF_REPO=$W VERIF_EVIDENCE_DIR=/tmp/mut_evidence VERIF_REPLAY_DIR=/tmp/mut_replays /venv/bin/python run_check.py $C --tier quick "$@"
rc=$?
git -C $W checkout -q -- . ; git -C $W clean -fdq
exit $rc
