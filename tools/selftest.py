#!/verif/.venv/bin/python
"""Engine self-validation (translator validation of symx), independent of any property:

 A. date theory, solver side: z3 proves (unsat of the negation, years 1..9999) the laws that tie the theory together —
    successor law of the ordinal, ITE month-rollover == ordinal arithmetic for |dd| <= 28, weekday step, leap/dim facts;
 B. date theory vs CPython: the proxies evaluated on concrete boundary and random values must agree with datetime /
    calendar (constructor validity and messages, replace, +/- timedelta, weekday, toordinal, comparisons, fixed-offset
    astimezone, fromtimestamp, monthrange/isleap/weekday);
 C. pinned-symbolic runs: date strings taken from the repository's own tests are parsed through the PUBLIC API with every
    digit a solver variable constrained to its literal value (so TStr, the symbolic regex, the instrumented _strptime,
    SDateTime are all exercised, on one path); the result must equal the native result of the same call.

usage: selftest.py [--strings N]      writes /verif/selftest_results.json"""
import argparse
import datetime as _dt
import json
import os
import random
import re
import subprocess
import sys
import time

VERIF = os.path.dirname(os.path.dirname(os.path.abspath(__file__)))
sys.path.insert(0, VERIF)
import z3  # noqa: E402

from symx import core, dates, runner  # noqa: E402
from symx.core import SInt  # noqa: E402


def part_a():
    res = []

    def prove(name, vars_, hyp, claim):
        s = z3.Solver()
        s.set("timeout", 120000)
        s.add(hyp, z3.Not(claim))
        t0 = time.time()
        r = s.check()
        res.append({"law": name, "result": "proved" if r == z3.unsat else str(r), "solver_s": round(time.time() - t0, 2)})
    y, m, d, dd = z3.Ints("y m d dd")
    valid = dates.z_valid_date(y, m, d)
    O = dates.z_ord_expr
    # successor law
    last = d == dates.z_dim(y, m)
    ny = z3.If(z3.And(last, m == 12), y + 1, y)
    nm = z3.If(last, z3.If(m == 12, 1, m + 1), m)
    nd = z3.If(last, 1, d + 1)
    prove("ord(next day) == ord + 1", [y, m, d], z3.And(valid, z3.Not(z3.And(y == 9999, m == 12, d == 31))),
          O(ny, nm, nd) == O(y, m, d) + 1)
    prove("ord(0001-01-01) == 1 and ord(9999-12-31) == 3652059", [], z3.BoolVal(True),
          z3.And(O(z3.IntVal(1), z3.IntVal(1), z3.IntVal(1)) == 1, O(z3.IntVal(9999), z3.IntVal(12), z3.IntVal(31)) == 3652059))
    prove("ord is injective on valid dates", [y, m, d], z3.And(valid, dates.z_valid_date(*z3.Ints("y2 m2 d2")),
                                                               O(y, m, d) == O(*z3.Ints("y2 m2 d2"))),
          z3.And(y == z3.Int("y2"), m == z3.Int("m2"), d == z3.Int("d2")))
    # ITE month rollover used by SDateTime._shift for |dd| <= 28
    d1 = d + dd
    pm = z3.If(m == 1, 12, m - 1)
    py = z3.If(m == 1, y - 1, y)
    nm2 = z3.If(m == 12, 1, m + 1)
    ny2 = z3.If(m == 12, y + 1, y)
    over = d1 > dates.z_dim(y, m)
    under = d1 < 1
    y2 = z3.If(over, ny2, z3.If(under, py, y))
    m2 = z3.If(over, nm2, z3.If(under, pm, m))
    d2 = z3.If(over, d1 - dates.z_dim(y, m), z3.If(under, d1 + dates.z_dim(py, pm), d1))
    prove("month-rollover ITE == ordinal arithmetic (|dd| <= 28)", [y, m, d, dd],
          z3.And(valid, dd >= -28, dd <= 28, y2 >= 1, y2 <= 9999),
          z3.And(dates.z_valid_date(y2, m2, d2), O(y2, m2, d2) == O(y, m, d) + dd))
    prove("weekday(1970-01-01) == Thursday", [], z3.BoolVal(True), (O(z3.IntVal(1970), z3.IntVal(1), z3.IntVal(1)) + 6) % 7 == 3)
    prove("365 <= days in a year <= 366, 366 iff leap", [y], z3.And(y >= 1, y <= 9998),
          O(y + 1, z3.IntVal(1), z3.IntVal(1)) - O(y, z3.IntVal(1), z3.IntVal(1)) == z3.If(dates.z_isleap(y), 366, 365))
    return res


def part_b(n_random=1500, seed=0):
    import calendar
    rnd = random.Random(seed)
    core.CUR = core.Ctx([])
    bad = []
    count = 0

    def val(x):
        if isinstance(x, SInt):
            v = z3.simplify(x.z)
            if not z3.is_int_value(v):
                # defined through fresh variables (ordinal inversion): unique by injectivity (law proved in part A)
                assert core.CUR.check(), "theory constraints unsatisfiable"
                v = core.CUR.model.eval(x.z, model_completion=True)
            return v.as_long()
        return x

    def fields(sd):
        return tuple(val(getattr(sd, f)) for f in dates._FIELDS)

    def rdt():
        if rnd.random() < 0.3:
            y = rnd.choice([1, 2, 4, 100, 400, 1900, 2000, 2024, 9998, 9999])
            m = rnd.choice([1, 2, 3, 12])
            d = rnd.choice([1, 28, calendar.monthrange(y, m)[1]])
        else:
            y, m = rnd.randint(1, 9999), rnd.randint(1, 12)
            d = rnd.randint(1, calendar.monthrange(y, m)[1])
        return _dt.datetime(y, m, d, rnd.choice([0, 23, rnd.randint(0, 23)]), rnd.randint(0, 59), rnd.randint(0, 59),
                            rnd.choice([0, 999999, rnd.randint(0, 999999)]))
    for it in range(n_random):
        if it % 50 == 0:
            core.CUR = core.Ctx([])     # keep the constraint store small
        a = rdt()
        sa = dates.SDateTime(*a.timetuple()[:6], a.microsecond)
        td = _dt.timedelta(days=rnd.choice([0, 1, -1, 7, -7, 28, -28, 29, 365, -366, rnd.randint(-4000000, 4000000)]),
                           seconds=rnd.choice([0, 1, 86399, rnd.randint(0, 86399)]), microseconds=rnd.choice([0, 1, 999999]))
        for op, f, g in (("+", lambda: a + td, lambda: sa + td), ("-", lambda: a - td, lambda: sa - td)):
            count += 1
            try:
                e = f()
            except OverflowError:
                e = "Overflow"
            try:
                r = fields(g())
            except OverflowError:
                r = "Overflow"
            if (e if e == "Overflow" else (*e.timetuple()[:6], e.microsecond)) != r:
                bad.append(("%s %s %s" % (a, op, td), str(e), str(r)))
        count += 4
        if val(sa.weekday()) != a.weekday() or val(sa.toordinal()) != a.toordinal():
            bad.append(("weekday/toordinal", str(a), ""))
        b = rdt()
        sb = dates.SDateTime(*b.timetuple()[:6], b.microsecond)
        if bool(sa < sb) != (a < b) or bool(sa == sb) != (a == b) or bool(sa >= sb) != (a >= b):
            bad.append(("compare", str(a), str(b)))
        dab = sa - sb
        if (val(dab.days), val(dab.seconds), val(dab.microseconds)) != ((a - b).days, (a - b).seconds, (a - b).microseconds):
            bad.append(("datetime - datetime", str(a), str(b)))
        # replace
        kw = {rnd.choice(["year", "month", "day", "hour", "minute"]): None}
        k = list(kw)[0]
        kw[k] = {"year": rnd.choice([1, 2000, 2023, 9999]), "month": rnd.randint(1, 12), "day": rnd.randint(1, 31),
                 "hour": rnd.randint(0, 23), "minute": rnd.randint(0, 59)}[k]
        count += 1
        try:
            e = a.replace(**kw)
            e = (*e.timetuple()[:6], e.microsecond)
        except ValueError as ex:
            e = "ValueError:" + str(ex)[:12]
        try:
            r = fields(sa.replace(**kw))
        except ValueError as ex:
            r = "ValueError:" + str(ex)[:12]
        if e != r:
            bad.append(("replace %r" % kw, str(a), "%s vs %s" % (e, r)))
        # fixed-offset conversion
        off = rnd.choice([0, 330, -480, 765, -720, 840])
        tz1, tz2 = _dt.timezone(_dt.timedelta(minutes=off)), _dt.timezone(_dt.timedelta(minutes=rnd.choice([0, -210, 345])))
        count += 1
        try:
            e = a.replace(tzinfo=tz1).astimezone(tz2)
            e = (*e.timetuple()[:6], e.microsecond)
        except OverflowError:
            e = "Overflow"
        try:
            r = fields(sa.replace(tzinfo=tz1).astimezone(tz2))
        except OverflowError:
            r = "Overflow"
        if e != r:
            bad.append(("astimezone %s->%s" % (tz1, tz2), str(a), "%s vs %s" % (e, r)))
    for y in list(range(1, 30)) + [100, 400, 1900, 2000, 2023, 2024, 9999] + [rnd.randint(1, 9999) for _ in range(300)]:
        for m in range(1, 13):
            count += 1
            mr = dates.symcalendar.monthrange(y, m)
            if (val(mr[0]), val(mr[1])) != calendar.monthrange(y, m) or bool(dates.symcalendar.isleap(y)) != calendar.isleap(y):
                bad.append(("monthrange/isleap", str((y, m)), ""))
    for ts in [0, 1, 86399, 86400, 10 ** 9, 2 ** 31, 10 ** 10 - 1, -1, -86400, -10 ** 9] + [rnd.randint(-10 ** 10, 10 ** 10) for _ in range(300)]:
        count += 1
        core.CUR = core.Ctx([])
        e = _dt.datetime(1970, 1, 1) + _dt.timedelta(seconds=ts)
        r = fields(dates.SDateTime.fromtimestamp(ts, _dt.timezone.utc))
        if (*e.timetuple()[:6], e.microsecond) != r:
            bad.append(("fromtimestamp", str(ts), str(r)))
    core.CUR = None
    return {"comparisons": count, "mismatches": bad[:10], "n_mismatches": len(bad)}


def test_strings(limit):
    """date strings (with at least one digit) from the repository's test parametrisations"""
    out, seen = [], set()
    for fn in ("tests/test_date_parser.py", "tests/test_date.py", "tests/test_parser.py", "tests/test_freshness_date_parser.py",
               "tests/test_languages.py"):
        p = os.path.join(runner.REPO, fn)
        if not os.path.exists(p):
            continue
        for m in re.finditer(r"param\(\s*(?:date_string=)?\"([^\"\\\n]{3,60})\"", open(p, encoding="utf-8").read()):
            s = m.group(1)
            if any(c.isdigit() for c in s) and s not in seen and "{" not in s:
                seen.add(s)
                out.append(s)
    rnd = random.Random(1)
    rnd.shuffle(out)
    return out[:limit]


def part_c(limit):
    strings = test_strings(limit)
    base = [2015, 6, 15, 12, 30, 15, 0]
    code = ("import sys,json; sys.path.insert(0,%r); import datetime; from dateparser.date import DateDataParser;"
            "S=json.load(open(sys.argv[1])); out=[]\n"
            "for s in S:\n"
            "  try:\n"
            "    r=DateDataParser(settings={'RELATIVE_BASE':datetime.datetime(*%r),'TIMEZONE':'UTC'}).get_date_data(s)\n"
            "    d=r.date_obj\n"
            "    out.append(None if d is None else [d.year,d.month,d.day,d.hour,d.minute,d.second,d.microsecond,"
            "None if d.tzinfo is None else int(d.utcoffset().total_seconds()), r.period, r.locale])\n"
            "  except Exception as e: out.append('EXC:'+type(e).__name__)\n"
            "print(json.dumps(out))" % (runner.REPO, base))
    tmp = "/tmp/selftest_strings.json"
    json.dump(strings, open(tmp, "w"))
    r = subprocess.run([runner.PY, "-c", code, tmp], capture_output=True, text=True, timeout=1800)
    native = json.loads(r.stdout.strip().splitlines()[-1])
    from symx import loader
    from symx.strings import TStr, SChar, wrap
    ns = loader.install()
    stats = {"strings": len(strings), "agree": 0, "inconclusive": 0, "disagree": [], "multi_path": 0}
    for s, exp in zip(strings, native):
        def fn(s=s):
            items = []
            for i, ch in enumerate(s):
                if ch.isdigit() and ch.isascii():
                    v = z3.Int("c%d" % i)
                    core.add(v == int(ch))
                    items.append(SChar(v, 48))
                else:
                    items.append(ch)
            t = wrap(TStr(items))
            try:
                dd = ns.D.DateDataParser(settings={"RELATIVE_BASE": dates.SDateTime(*base), "TIMEZONE": "UTC"}).get_date_data(t)
            except Exception as e:  # noqa
                return core.PathOutcome(isinstance(exp, str) and exp == "EXC:" + type(e).__name__, {}, "exc")
            d = dd.date_obj
            if exp is None or isinstance(exp, str):
                return core.PathOutcome(d is None and exp is None, {}, "none")
            if d is None:
                return core.PathOutcome(False, {}, "none-but-native-value")
            conds = [core._zi(getattr(d, f)) == v for f, v in zip(dates._FIELDS, exp[:7])]
            off = None if d.tzinfo is None else dates.fixed_offset_us(d.tzinfo) // 1000000
            return core.PathOutcome(z3.And(z3.And(*conds), off == exp[7], dd.period == exp[8], dd.locale == exp[9]), {}, "value")
        res = core.explore(fn, max_paths=50, deadline=time.time() + 120)
        if res.inconclusive or res.capped:
            stats["inconclusive"] += 1
        elif res.violations:
            stats["disagree"].append({"string": s, "native": exp})
        else:
            stats["agree"] += 1
        if res.paths > 1:
            stats["multi_path"] += 1
    stats["disagree"] = stats["disagree"][:20]
    return stats


def main():
    ap = argparse.ArgumentParser()
    ap.add_argument("--strings", type=int, default=400)
    a = ap.parse_args()
    t0 = time.time()
    out = {"A_solver_side_laws": part_a()}
    out["B_differential_vs_cpython"] = part_b()
    out["C_pinned_symbolic_on_repo_test_strings"] = part_c(a.strings)
    out["wall_s"] = round(time.time() - t0, 1)
    json.dump(out, open(os.path.join(VERIF, "selftest_results.json"), "w"), indent=1, ensure_ascii=False)
    ok = all(x["result"] == "proved" for x in out["A_solver_side_laws"]) and out["B_differential_vs_cpython"]["n_mismatches"] == 0 \
        and not out["C_pinned_symbolic_on_repo_test_strings"]["disagree"]
    print(json.dumps({k: (v if k != "C_pinned_symbolic_on_repo_test_strings" else {kk: vv for kk, vv in v.items() if kk != "disagree"})
                      for k, v in out.items()}, indent=1, ensure_ascii=False)[:3000])
    print("disagreements:", out["C_pinned_symbolic_on_repo_test_strings"]["disagree"][:10])
    print("SELFTEST", "OK" if ok else "FAILED")
    return 0 if ok else 1


if __name__ == "__main__":
    sys.exit(main())
