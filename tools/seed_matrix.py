#!/usr/bin/env python3
"""Runs checks against the seeded changes kept under /verif/seeded, in a scratch worktree (never in /repo).

usage: seed_matrix.py [--tier quick] [--checks C01,C04] [seed-name ...]
For each seed the patch is applied to a scratch worktree of /repo's HEAD (falling back to the pinned commit when it
conflicts with a later 'fix:' commit; a hand-ported patch_on_fixed_head.diff is preferred when present) and the check of
the seed's own property (plus --also ids) is run with VERIF_REPO pointing at the worktree.  Writes seeded/RESULTS.json."""
import argparse
import json
import os
import subprocess
import sys

VERIF = os.path.dirname(os.path.dirname(os.path.abspath(__file__)))
WT = "/tmp/seedmx"
PINNED = "c8c8cb2"
EXTRA = {"C07-B": ["C03"], "C02-A": ["C09"], "C06-A": ["C05"], "C06-B": ["C18"], "C05-B": ["C03"], "C13-B": ["C03"],
         "C08-D": ["C03"], "C13-C": ["C03"], "C13-D": ["C03"], "C10-D": ["C03"], "C02-C": ["C03"], "C07-C": ["C03"],
         "C04-D": ["C03"], "C09-E": ["C03"], "C11-F": ["C03"], "C13-E": ["C06"], "C13-F": ["C07"], "C07-E": ["C13"], "C14-F": ["C08"], "C10-F": ["C08"], "C01-F": ["C12"], "C17-F": ["C02"], "C13-G": ["C07"], "C19-G": ["C11"], "C14-G": ["C08"], "C03-J": ["C07"], "C09-C": ["C12"], "C09-D": ["C12"], "C01-D": ["C12"], "C19-D": ["C11"], "C08-C": ["C14"]}


def sh(*a, **k):
    return subprocess.run(*a, capture_output=True, text=True, **k)


def main():
    ap = argparse.ArgumentParser()
    ap.add_argument("seeds", nargs="*")
    ap.add_argument("--tier", default="quick")
    ap.add_argument("--also", default="")
    a = ap.parse_args()
    claimed = {c["property_id"] for c in json.load(open(os.path.join(VERIF, "MANIFEST.json")))["checks"]}
    seeds = a.seeds or sorted(d for d in os.listdir(os.path.join(VERIF, "seeded")) if os.path.isdir(os.path.join(VERIF, "seeded", d)))
    res_path = os.path.join(VERIF, "seeded", "RESULTS.json")
    results = json.load(open(res_path)) if os.path.exists(res_path) else {}
    sh(["git", "-C", "/repo", "worktree", "remove", "--force", WT])
    sh(["git", "-C", "/repo", "worktree", "add", "-f", WT, "HEAD"])
    head = sh(["git", "-C", "/repo", "rev-parse", "--short", "HEAD"]).stdout.strip()
    try:
        for seed in seeds:
            d = os.path.join(VERIF, "seeded", seed)
            prop = seed.split("-")[0]
            sh(["git", "-C", WT, "checkout", "-q", "--force", head])
            sh(["git", "-C", WT, "reset", "-q", "--hard"])
            base = head
            try:
                evaluate_on = json.load(open(os.path.join(d, "meta.json"))).get("evaluate_on")
            except Exception:  # noqa
                evaluate_on = None
            if evaluate_on:
                sh(["git", "-C", WT, "checkout", "-q", "--force", evaluate_on])
                base = evaluate_on
            ported = os.path.join(d, "patch_on_fixed_head.diff")
            patch = ported if os.path.exists(ported) else os.path.join(d, "patch.diff")
            r = sh(["git", "-C", WT, "apply", patch])
            if r.returncode != 0:
                try:
                    fallback = json.load(open(os.path.join(d, "meta.json"))).get("base_commit") or PINNED
                except Exception:  # noqa
                    fallback = PINNED
                sh(["git", "-C", WT, "checkout", "-q", "--force", fallback])
                base = fallback
                r = sh(["git", "-C", WT, "apply", os.path.join(d, "patch.diff")])
                if r.returncode != 0:
                    results[seed] = {"error": "patch does not apply: " + r.stderr[:200]}
                    continue
            entry = {"applied_on": base, "checks": {}}
            for cid in [prop] + EXTRA.get(seed, []) + [x for x in a.also.split(",") if x]:
                if cid not in claimed:
                    entry["checks"][cid] = "not claimed"
                    continue
                env = dict(os.environ, VERIF_REPO=WT, VERIF_EVIDENCE_DIR="/tmp/seedmx_evidence",
                           VERIF_REPLAY_DIR="/tmp/seedmx_replays")
                p = sh(["/venv/bin/python", os.path.join(VERIF, "run_check.py"), cid, "--tier", a.tier], env=env, timeout=7200)
                viol = [l for l in p.stdout.splitlines() if l.startswith("VIOLATION")]
                entry["checks"][cid] = {"exit": p.returncode, "violations": len(viol),
                                        "first": (p.stdout.split("VIOLATION", 1)[1][:400] if viol else ""),
                                        "harness_errors": len([l for l in p.stdout.splitlines() if l.startswith("HARNESS-ERROR")])}
                print(seed, cid, "exit", p.returncode, "violations", len(viol), flush=True)
            results[seed] = entry
            json.dump(results, open(res_path, "w"), indent=1, sort_keys=True)
    finally:
        sh(["git", "-C", "/repo", "worktree", "remove", "--force", WT])
    sh(["rm", "-rf", "/tmp/seedmx_evidence", "/tmp/seedmx_replays"])
    return 0


if __name__ == "__main__":
    sys.exit(main())
