#!/bin/sh
# usage: verify_seed.sh <worktree> <seed-dir> <label A|B>
# confirms a seeded change: applies cleanly, full suite == baseline counts, demo exits !=0 with the change and 0 without
W=$1; S=$2; L=$3
cd "$W" || exit 2
git checkout -q -- .
rm -rf _seed; cp -r $S _seed
/venv/bin/python _seed/${L}_demo.py >/dev/null 2>&1; clean=$?
git apply _seed/${L}.diff || { echo "$(basename $W) $L: APPLY-FAIL"; rm -rf _seed; exit 2; }
/venv/bin/python _seed/${L}_demo.py >/dev/null 2>&1; mut=$?
suite=$(/venv/bin/python -m pytest -ra -q -p no:cacheprovider --timeout=900 --continue-on-collection-errors --ignore=_seed 2>&1 | tail -1)
git checkout -q -- .
rm -rf _seed
echo "$(basename $W) $L: demo clean=$clean mutated=$mut suite: $suite"
