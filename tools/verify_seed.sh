#!/bin/sh
# usage: verify_seed.sh <worktree> <seed-dir> <label A|B>
# confirms a seeded change: applies cleanly, full suite == baseline counts, demo exits !=0 with the change and 0 without
W=$1; S=$2; L=$3
cd "$W" || exit 2
git checkout -q -- .
/venv/bin/python $S/${L}_demo.py >/dev/null 2>&1; clean=$?
git apply $S/${L}.diff || { echo "$(basename $W) $L: APPLY-FAIL"; exit 2; }
/venv/bin/python $S/${L}_demo.py >/dev/null 2>&1; mut=$?
suite=$(/venv/bin/python -m pytest -ra -q -p no:cacheprovider --timeout=900 --continue-on-collection-errors 2>&1 | tail -1)
git checkout -q -- .
echo "$(basename $W) $L: demo clean=$clean mutated=$mut suite: $suite"
