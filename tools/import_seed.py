#!/usr/bin/env python3
"""Confirms a sub-agent's seeded change and, only if confirmed, stores it under /verif/seeded/<prop>-<dst label>.

usage: import_seed.py <worktree> <prop id> <src label A|B> <dst label>
Confirmation = tools/verify_seed.sh: the diff applies to the worktree's clean checkout, the demonstration exits 0 without
the change and non-zero with it, and the full baseline pytest command reports the baseline counts with it applied."""
import json
import os
import re
import shutil
import subprocess
import sys

VERIF = os.path.dirname(os.path.dirname(os.path.abspath(__file__)))


def main():
    wt, prop, src, dst = sys.argv[1:5]
    sd = os.path.join(wt, "_seed")
    tag = os.path.basename(wt.rstrip("/"))
    for cand in ("out_" + prop, "out_" + tag):
        if not os.path.isdir(sd) and os.path.isdir(os.path.join(wt, cand)):
            sd = os.path.join(wt, cand)               # rounds 3 and 4 deliverables directory
    backup = os.path.join(os.path.dirname(wt.rstrip("/")), "out", tag)      # verify_seed.sh removes <worktree>/_seed
    if os.path.isdir(sd) and not os.path.isdir(backup):
        os.makedirs(os.path.dirname(backup), exist_ok=True)
        shutil.copytree(sd, backup)
    tmp = "/tmp/import_seed_%s_%s_%s" % (tag, prop, src)
    shutil.rmtree(tmp, ignore_errors=True)
    shutil.copytree(backup, tmp)
    out = subprocess.run(["sh", os.path.join(VERIF, "tools", "verify_seed.sh"), wt, tmp, src], capture_output=True, text=True).stdout.strip()
    print(out)
    m = re.search(r"demo clean=(\d+) mutated=(\d+) suite: (.*)$", out)
    ok = bool(m) and m.group(1) == "0" and m.group(2) != "0" and "23933 passed" in m.group(3) and "5 failed" in m.group(3) \
        and "1 error" in m.group(3)
    if not ok:
        print("NOT CONFIRMED: %s %s" % (prop, src))
        shutil.rmtree(tmp, ignore_errors=True)
        return 1
    d = os.path.join(VERIF, "seeded", "%s-%s" % (prop, dst))
    os.makedirs(d, exist_ok=True)
    shutil.copy(os.path.join(tmp, src + ".diff"), os.path.join(d, "patch.diff"))
    shutil.copy(os.path.join(tmp, src + "_demo.py"), os.path.join(d, "demo.py"))
    notes = open(os.path.join(tmp, "notes.md")).read() if os.path.exists(os.path.join(tmp, "notes.md")) else ""
    head = subprocess.run(["git", "-C", wt, "rev-parse", "--short", "HEAD"], capture_output=True, text=True).stdout.strip()
    json.dump({"property": prop, "label": dst, "round": int(os.environ.get("SEED_ROUND", "2")), "base_commit": head,
               "source": "independent sub-agent given only the property text and a scratch worktree (rounds 2 and 3: told which "
                         "functions earlier seeds had touched and asked to pick different ones)",
               "confirmed": {"applies_to_base_commit": True, "demo_exit_clean": int(m.group(1)),
                             "demo_exit_with_change": int(m.group(2)), "suite_with_change": m.group(3),
                             "how": "tools/import_seed.py -> tools/verify_seed.sh"},
               "notes_excerpt": notes[:3000]}, open(os.path.join(d, "meta.json"), "w"), indent=1)
    shutil.rmtree(tmp, ignore_errors=True)
    print("stored", d)
    return 0


if __name__ == "__main__":
    sys.exit(main())
