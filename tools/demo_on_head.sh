#!/bin/sh
# usage: demo_on_head.sh <seed-name>  — does the seed's own demonstration still fail when the change is applied to /repo's HEAD?
S=$1; W=/tmp/mut
[ -d $W ] || git -C /repo worktree add -f --detach $W HEAD >/dev/null 2>&1
git -C $W checkout -q --force --detach $(git -C /repo rev-parse HEAD) && git -C $W reset -q --hard && git -C $W clean -fdq
P=/verif/seeded/$S/patch_on_fixed_head.diff; [ -f $P ] || P=/verif/seeded/$S/patch.diff
git -C $W apply $P || { echo "$S APPLY FAILED on HEAD"; exit 2; }
mkdir -p $W/_seed; cp /verif/seeded/$S/demo.py $W/_seed/demo.py
(cd $W && /venv/bin/python _seed/demo.py >/tmp/demo_on_head.out 2>&1); rc=$?
echo "$S demo exit on HEAD+change: $rc"; tail -3 /tmp/demo_on_head.out
git -C $W checkout -q -- . ; git -C $W clean -fdq
