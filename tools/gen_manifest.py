#!/usr/bin/env python3
"""Regenerates /verif/MANIFEST.json from the table below (kept in one place so that it stays valid)."""
import json
import os

VERIF = os.path.dirname(os.path.dirname(os.path.abspath(__file__)))
SYMX = ("z3-decided bounded symbolic execution of the real code (AST-instrumented re-import of /repo, proxy objects; "
        "symx engine)")
NOTE_SYMX = ("Trusted base: z3; the symx proxies (date theory for datetime/calendar, template strings, symbolic regex "
             "that delegates single-character atoms and digit-blind patterns to the real engine); stubs listed in the "
             "evidence file (clock = arbitrary instant, process zone = UTC, fixed-offset zones only). Letters of a "
             "template are concrete; only decimal fields, finite setting choices, reference instants and the clock are "
             "solver-quantified. Inconclusive paths and capped tasks are reported, never counted as passed; every "
             "counterexample is replayed on the uninstrumented repository before VIOLATION is printed.")

CLAIMED = {
    "C01": {
        "text": "For each template of the standard-format family (ISO date/date-time incl. 'T' and fractions, RFC-2822 "
                "style, English month forms, 10/13/16-digit epochs, see DESIGN.md App. A1) every feasible path of the "
                "public entry DateDataParser.get_date_data is enumerated with ALL date/time fields (years 1-9999, full "
                "calendar), the PREFER_* choices and the clock symbolic; z3 shows per path that the result equals the "
                "written datetime (epochs: the instant shifted by the fixed TIMEZONE offset) and period == 'day'. "
                "Bounded: the listed templates, English (and autodetection for marked templates), fixed-offset zones.",
        "design_ref": "DESIGN.md §3 C01",
    },
    "C02": {
        "text": "Totality on templates: the public entry get_date_data is executed on ~23 English template shapes (ISO, "
                "slash, named month, time-only, digit blocks, epochs, relative phrases, tz suffixes) whose decimal fields "
                "are UNCONSTRAINED (month 00-99, offsets 0000-9999 ...), with RELATIVE_BASE anywhere in [min, max] (naive or "
                "aware), fixed-offset TIMEZONE/TO_TIMEZONE, PREFER_* and the clock symbolic; any exception leaving the call "
                "on a feasible path, a period outside the five values or date_obj/locale disagreeing is a counterexample. "
                "Settings validation: every documented key with typed candidate values, each tried after a valid value of "
                "the same key, the date string symbolic; oracle = independent validity table. Arbitrary str <= 100 is "
                "outside (letters are not symbolic).",
        "design_ref": "DESIGN.md §3 C02",
    },
    "C03": {
        "text": "One step from an arbitrary shared state: (i) each of the five dictionary-cache accessors is run from every "
                "ordered cache state of <= 4 settings keys x <= 2 locales satisfying the representation invariant, own key "
                "absent or at any position, CACHE_SIZE_LIMIT 0..5 (solver-enumerated): no KeyError, own entry returned, "
                "other entries only evicted; (ii) _try_parser with the absolute parser's outcome an arbitrary exception "
                "type restores DATE_ORDER on every exit; (iii) settings registry: ordered pairs of settings dicts incl. "
                "dicts spelling out defaults, with an earlier field mutation: a live instance is untouched by other "
                "configurations and re-initialised on reuse; (iv) short API histories with symbolic digits (failed parse "
                "then default order, differing CACHE_SIZE_LIMITs, custom settings then defaults). Whole-API histories "
                "beyond these, hash seeds and aliasing of caller-owned arguments are outside.",
        "design_ref": "DESIGN.md §3 C03",
    },
    "C04": {
        "text": "Public entry get_date_data (English) for 'n U ago' / 'in n U' with every unit incl. decades, 2- and "
                "3-unit phrases in both orders, now/today/yesterday/tomorrow, last/next week|month|year, phrases with a "
                "clock time (also with RETURN_TIME_AS_PERIOD) and the implicit-now form under fixed-offset TIMEZONEs: "
                "the reference instant (years 1-9999 incl. microseconds), the counts (written width up to 4 digits) and "
                "the clock are symbolic; the real dateutil.relativedelta is executed through the same loader; z3 shows "
                "per path that the result equals independent calendar arithmetic (clamped month/year steps, then linear "
                "units on the instant pair), is None exactly when that leaves year 1-9999, and that the period is the one "
                "the statement names. Decimals are outside.",
        "design_ref": "DESIGN.md §3 C04",
    },
    "C05": {
        "text": "The vocabulary is a finite table (read from the data files with ast each run, ~7,700 single-meaning "
                "month/weekday names of 205 languages and their regional overlays): ENUMERATED. Per name the public entry "
                "get_date_data is executed on 'D <name> YYYY' with the day (1-28, both widths) and the year (1000-9999) "
                "symbolic, and on '<weekday name>' with the reference instant symbolic (day of month 8-24): z3 shows per "
                "path that exactly that day/month/year, resp. the most recent such weekday within the last seven days, "
                "comes back. Also: a base language after its regional overlay was loaded first. Quick tier: seed-rotated "
                "language slice + every name whose accent-stripped form collides with another word + known-finding names; "
                "thorough: everything, NORMALIZE on and off. One open known finding lists 27 (locale, name) pairs.",
        "design_ref": "DESIGN.md §3 C05",
    },
    "C06": {
        "text": "Finite table (~3,400 fixed relative phrases, ~3,200 counted patterns that are literal text around one number "
                "group): ENUMERATED. Per item ONE symbolic path runs the public entry twice - the language's phrase and the "
                "English canonical expression - under the same symbolic reference instant (years 1-9999 incl. µs) and the "
                "same symbolic count (1-3 digits); z3 shows both results are None or field-wise equal. Quick tier: rotated "
                "slice + accent-collision phrases + phrases with punctuation + known-finding phrases; thorough: everything. "
                "One open known finding lists 25 phrases/patterns. Decimals are outside.",
        "design_ref": "DESIGN.md §3 C06",
    },
    "C07": {
        "text": "Public entry get_date_data for numeric three-field dates (4-digit zero-padded year) rendered in each of "
                "the 6 orders with separators '-', '/', '.', ' ' (optional HH:MM): with every valid (y,m,d) for years "
                "1-9999, PREFER_* and the clock symbolic, z3 shows per path that an explicit DATE_ORDER yields exactly the "
                "fields the order names (also against a language whose own order differs), and that without DATE_ORDER "
                "the language's/locale's own order (or MDY with PREFER_LOCALE_DATE_ORDER off) is used; the per-language "
                "loop visits a seed-rotated slice in the quick tier and all 205 languages + differing regional locales "
                "in the thorough tier. One open known finding (year read as a UTC offset after '-') is assumed away "
                "for its exact, recomputed region and re-confirmed natively each run.",
        "design_ref": "DESIGN.md §3 C07",
    },
    "C08": {
        "text": "Kernels (set_correct_day/month_from_settings, get_last_day_of_month) and the public entry "
                "get_date_data for month-year / year-only / full-date English templates and strptime formats are executed "
                "symbolically with the year (1-9999), the reference instant (RELATIVE_BASE for the absolute parser, the "
                "clock stub for the custom-format parser; incl. days 29-31 and Feb 29) and all PREFER_* choices symbolic; "
                "z3 shows per path that day/month are completed as configured (first / last incl. leap years / reference "
                "clamped), that stated parts are never altered and that the period is month/year/day/time as stated.",
        "design_ref": "DESIGN.md §3 C08",
    },
    "C09": {
        "text": "Public entry get_date_data for weekday-only, time-only (UTC and fixed-offset TIMEZONE), month-only, "
                "day+month, day+month+HH:MM and two-digit-year English templates with the reference instant (years 5-9995; 1970-2067 for "
                "two-digit years), day numbers, HH:MM and YY symbolic, per PREFER_DATES_FROM value: z3 shows per path "
                "not-after / not-before, nearest occurrence (weekday: 1..7 days; time: same/adjacent day), current_period "
                "windows and preservation of the named parts; the time-only form also under tz-database zones with "
                "transitions (pytz's own code executed symbolically, oracle = zoneinfo-derived transition table). Two open "
                "known findings (month reset after a weekday/day shift that crosses a month boundary; time-only date taken "
                "from the UTC date) are characterised in known_findings.json; inside their regions only the correct or the "
                "characterised wrong value is accepted.",
        "design_ref": "DESIGN.md §3 C09",
    },
    "C10": {
        "text": "Kernel: _check_strict_parsing with symbolic strict/missing/required bits raises iff a required part is "
                "missing. Relation: in ONE symbolic path the public entry is called three times - lax with reference b1, "
                "strict (STRICT_PARSING or each REQUIRE_PARTS subset) with b1, strict with an independent b2 (and an "
                "independent clock for the custom-format parser) - on English templates for every subset of {weekday, "
                "day, month, year, time}, strptime formats, timestamps and no-space dates with all digits and both "
                "references symbolic; z3 shows per path: strict in {lax, None}; a strict result only when the template "
                "states the required parts; required parts equal for both references. The multilingual corpus is outside.",
        "design_ref": "DESIGN.md §3 C10",
    },
    "C11": {
        "text": "For entries of the LOADED timezone table (42 offsets x up to 11 spellings, ~390 abbreviations in upper "
                "and lower case and in parentheses; quick tier: one spelling per offset, every non-plain-uppercase name "
                "and a seed-rotated eighth of the rest) the public entry get_date_data is executed on 'date-time + tz' with "
                "the time digits symbolic (and with ALL body digits symbolic for selected spellings, where body digits "
                "could be swallowed by an offset pattern); the real first-match loop over the 773 patterns runs "
                "symbolically; z3 shows per path that the result is aware, its offset is the listed one and its wall "
                "clock is the written one. Pickling/copying is outside. One open known finding (abbreviations with "
                "diacritics).",
        "design_ref": "DESIGN.md §3 C11",
    },
    "C12": {
        "text": "For ordered pairs (TIMEZONE, TO_TIMEZONE) from a pool of fixed-offset zone spellings, the three "
                "RETURN_AS_TIMEZONE_AWARE values and the four parsers (timestamp, relative incl. a zone written in the "
                "phrase, custom-format, absolute incl. a zone written in the string) the public entry is executed with "
                "the local date-time (1950-2037) symbolic; z3 shows per path that the result is the same instant "
                "re-expressed in the target zone (pair arithmetic on ordinal/µs-of-day) and that awareness follows the "
                "statement's table. tz-database zones WITH transitions (6 zones; quick: local times of 2021, thorough: "
                "1971-2036; neither in a gap nor ambiguous, as the property states): pytz's own DstTzInfo code is "
                "re-imported through the loader and executed symbolically, the oracle is a transition table derived from "
                "the stdlib zoneinfo.",
        "design_ref": "DESIGN.md §3 C12",
    },
    "C13": {
        "text": "Selection law: the real DateDataParser.get_date_data/_get_applicable_locales and LocaleDataLoader run "
                "with per-locale applicability (raw and tz-stripped string) and per-locale parse outcome replaced by "
                "symbolic bits; language sequences (<= 3 of a pool of 4 + an unknown code; plus one pool {script variant, base language, a language ranked between} per script-variant language of the index), DEFAULT_LANGUAGES (<= 2) and "
                "use_given_order are enumerated by solver-driven forking; z3 shows per path that the reported locale is the "
                "first one, in priority or given order, that is applicable and parses, that defaults are used only when "
                "none of the selected succeeds, and that an unknown code raises ValueError. Relational tasks: "
                "autodetection vs. re-parsing with the reported language on month-name templates with symbolic digits. "
                "Load-history tasks: locale conventions after a symbolic order of first loads. The corpus is outside.",
        "design_ref": "DESIGN.md §3 C13",
    },
    "C14": {
        "text": "For ~46 strptime formats (numeric, English month/weekday names, 12h/24h, %f, two-digit years, partial and "
                "year-less formats, formats whose rendering the sanitiser/heuristics would rewrite) and for localized "
                "month names of visited languages, the public entry get_date_data(date_formats=[f]) is executed with every "
                "expressed field, the PREFER_* choices and the clock symbolic; the stdlib _strptime is executed through "
                "the same loader; z3 shows per path that the expressed fields come back, missing day/month follow the "
                "preferences (clock-based 'current'), a missing year is the clock's year, and the format's reading wins.",
        "design_ref": "DESIGN.md §3 C14",
    },
    "C15": {
        "text": "CLAIM MODULO THE THIRD-PARTY CONVERTERS (convertdate.persian floats, hijridate tables: not encoded). "
                "dateparser's own calendar parsing (to_latin rewriting of months, weekdays, Persian digits, spelled-out "
                "days, time words; token validation; two-digit years; the Hijri converter wrapper; clock time) is "
                "executed symbolically through JalaliCalendar/HijriCalendar.get_date on numeric templates (ASCII and "
                "Persian digits), 'D <Persian month name> YYYY', weekday words, every spelled day word, time suffixes, with "
                "year/month/day/time symbolic and to_gregorian/from_gregorian as uninterpreted functions (month_length: "
                "structural contract, real values for concrete arguments); z3 shows per path that exactly the written "
                "(Y, M, D) is handed to to_gregorian once and its result is returned with the written time. Every "
                "violating witness is realised as a valid date and replayed against the real converters as reference.",
        "design_ref": "DESIGN.md §3 C15",
    },
    "C17": {
        "text": "Token loop: the real Locale.translate_search runs over every sequence of <= 3 (thorough 4) tokens drawn by "
                "symbolic choice from a per-locale pool (12 locales incl. all without word spacing): no exception, "
                "translated/original aligned, originals are in-order joins of the tokens. Alignment: the real "
                "_simplify_split_align over symbolic expansion/merge shapes against the expected placeholder layout. "
                "Split path: the real parse_found_objects/split_by/choose_best_split over chunks of <= 3 (4) pieces whose "
                "lengths straddle the 2-character threshold, inner parse outcomes as symbolic bits: no exception, hits "
                "non-blank, in order. Pipeline: search_dates on sentence templates in 8 languages with symbolic digits "
                "(languages given / autodetected, with/without RELATIVE_BASE): None or a non-empty list of (non-blank "
                "in-text in-order substring, datetime[, language among those requested]). Free text is outside.",
        "design_ref": "DESIGN.md §3 C17",
    },
    "C18": {
        "text": "Relational, two API runs per symbolic path with shared symbolic digits: (i) whitespace - each rewriting "
                "of the fixed family (lead/trail/pad, doubled/tripled spaces, tab, newline, NBSP, mixed runs, trailing "
                "colon, pad/colon combinations) applied to 20 templates in en/fr/ru/de/tl/sv; (ii) digit script - every "
                "Unicode Nd block (enumerated from unicodedata, ~70) substituted for the ASCII digits of 10 templates, the "
                "digit values symbolic; z3 shows per path that both parses are None or equal field-wise incl. tz and "
                "period. The multilingual corpus is outside.",
        "design_ref": "DESIGN.md §3 C18",
    },
    "C19": {
        "text": "The real _load_offsets and the real C pickle.load are executed over a file proxy whose length k is a z3 "
                "integer in [0, N] (shipped cache and 7 other contents: wrong-shape pickles, non-pickle bytes), plus the "
                "missing-file case, with and without BUILD_TZ_CACHE: every read forks on k, so the solver partitions all "
                "cut points into classes; per class the obligation 'no exception escapes, the table equals the rebuilt "
                "one, a complete cache is written back and a second load accepts it' is decided; one witness per class "
                "(both ends for violated classes) is replayed as a real truncated file in a scratch package copy with "
                "python -c 'import dateparser' run twice.",
        "design_ref": "DESIGN.md §3 C19",
        "technique": "z3-decided symbolic execution of the real loader over a symbolic-length file (symx core), real C "
                     "unpickler in the loop; class witnesses replayed on real files",
    },
}

NOT_APPLICABLE = {
    "C16": "ground equality of concrete shipped artefacts with generator output: nothing to make symbolic, a solver "
           "decides nothing a byte comparison would not; the generator's dependency (ruamel.yaml) is not installed",
    "C20": "thread schedules of the CPython interpreter over a shared mutable heap have no tractable SMT encoding here; "
           "the only solver-ownable variable (a preemption index) would make the check schedule enumeration, a different "
           "technique (DESIGN.md §3 C20)",
}


def main():
    ids = [json.loads(l)["id"] for l in open(os.path.join(VERIF, "properties.jsonl"))]
    checks = []
    for cid in ids:
        if cid not in CLAIMED:
            continue
        c = CLAIMED[cid]
        checks.append({
            "property_id": cid,
            "quick_cmd": "/venv/bin/python /verif/run_check.py %s --tier quick" % cid,
            "thorough_cmd": "/venv/bin/python /verif/run_check.py %s --tier thorough" % cid,
            "evidence_file": "/verif/evidence/%s.json" % cid,
            "replay_cmd_template": "/venv/bin/python /verif/run_check.py %s --replay {path}" % cid,
            "engine": c.get("engine", "symx"),
            "level_claimed": {"category": "other", "text": c["text"], "design_ref": c["design_ref"]},
            "level_note": c.get("note", NOTE_SYMX),
            "technique": c.get("technique", SYMX),
        })
    na = []
    for cid in ids:
        if cid in CLAIMED:
            continue
        na.append({"property_id": cid,
                   "reason": NOT_APPLICABLE.get(cid, "check not built yet (see DESIGN.md §7 build order)")})
    m = {
        "version": 1,
        "setup_cmd": "sh /verif/setup.sh",
        "hooks": {
            "guard": "DATEPARSER_VERIF",
            "enable": "no source hooks exist: checks re-import /repo's working tree through an AST-instrumenting loader "
                      "(symx.loader) or run CrossHair on harness files that import /repo; the variable is unused",
            "baseline_off_cmd": "cd /repo && /venv/bin/python -m pytest -ra -q -p no:cacheprovider --timeout=900 "
                                "--continue-on-collection-errors",
            "source_commits": [],
            "add_only": True,
        },
        "engines": [
            {"name": "symx", "path": "/verif/symx", "serves_properties": sorted(
                k for k, v in CLAIMED.items() if v.get("engine", "symx") == "symx"),
             "kind_free_text": "purpose-built symbolic executor for Python (proxy objects + z3), executes the real "
                               "dateparser modules re-imported from source on every run"},
            {"name": "crosshair", "path": "/verif/ch", "serves_properties": sorted(
                k for k, v in CLAIMED.items() if "crosshair" in v.get("engine", "")),
             "kind_free_text": "crosshair-tool 0.0.110 (symbolic execution of Python with z3) on small harness files "
                               "calling the real functions"},
        ],
        "checks": checks,
        "not_applicable": na,
        "notes": "Technique family: solver-based checking of the real code. Exit codes: 0 held / 1 VIOLATION (replayed) / "
                 "3 harness error. Known findings: /verif/known_findings.json. VERIF_REPO can point the machinery at a "
                 "scratch copy of the repository (default /repo).",
    }
    json.dump(m, open(os.path.join(VERIF, "MANIFEST.json"), "w"), indent=1)
    print("claimed:", [c["property_id"] for c in checks], "n/a:", [n["property_id"] for n in na])


if __name__ == "__main__":
    main()
