#!/bin/sh
# usage: import_round5.sh <prop id>   — round 5: one change per agent, deliverables /tmp/r5_<prop>/_seed/{patch.diff,demo.py,notes.txt}; stored as seeded/<prop>-M
P=$1; W=/tmp/r5_$P
[ -f $W/_seed/patch.diff ] || { echo "no deliverable for $P"; exit 2; }
mkdir -p /tmp/out; rm -rf /tmp/out/r5_$P; mkdir /tmp/out/r5_$P
cp $W/_seed/patch.diff /tmp/out/r5_$P/A.diff; cp $W/_seed/demo.py /tmp/out/r5_$P/A_demo.py
cp $W/_seed/notes.txt /tmp/out/r5_$P/notes.md 2>/dev/null
rm -rf $W/_seed
SEED_ROUND=5 python3 /verif/tools/import_seed.py $W $P A M
