#!/bin/sh
# usage: verify_all.sh <ids...>  — verifies seeds under /tmp/seed/out/<id> against worktrees /tmp/seed/<id>
for i in "$@"; do for L in A B; do /verif/tools/verify_seed.sh /tmp/seed/$i /tmp/seed/out/$i $L; done; done
