#!/usr/bin/env python3
"""prints the seeded-change matrix (seeded/RESULTS.json + meta.json) as a markdown table for DESIGN.md"""
import json
import os

V = os.path.dirname(os.path.dirname(os.path.abspath(__file__)))
R = json.load(open(os.path.join(V, "seeded", "RESULTS.json")))
rows = []
for seed in sorted(os.listdir(os.path.join(V, "seeded"))):
    d = os.path.join(V, "seeded", seed)
    if not os.path.isdir(d):
        continue
    meta = json.load(open(os.path.join(d, "meta.json")))
    files = sorted({l[6:].strip() for l in open(os.path.join(d, "patch.diff"), errors="replace") if l.startswith("+++ b/")})
    e = R.get(seed, {})
    own = seed.split("-")[0]
    res = e.get("checks", {})
    caught = [c for c, v in res.items() if isinstance(v, dict) and v.get("violations", 0) > 0 and v.get("exit") == 1]
    rnd = meta.get("round", 1)
    status = "own check" if own in caught else (("by " + ", ".join(caught)) if caught else ("MISSED" if res else "not run yet"))
    rows.append((seed, rnd, ", ".join(f.replace("dateparser/", "") for f in files), e.get("applied_on", "?"), status))
print("| seed | round | files changed | applied on | detected (quick tier) |")
print("|---|---|---|---|---|")
for r in rows:
    print("| %s | %s | %s | %s | %s |" % r)
tot = len(rows)
print()
print("%d seeds: %d by the property's own check, %d only by another check, %d missed" % (
    tot, sum(r[4] == "own check" for r in rows), sum(r[4].startswith("by ") for r in rows), sum(r[4] == "MISSED" for r in rows)))
