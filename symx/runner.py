"""Common protocol of all checks: task pool, replay of counterexamples on the uninstrumented code, known findings,
evidence files, exit codes (0 held / 1 violation / 3 harness error)."""
import importlib
import json
import multiprocessing as mp
import os
import subprocess
import sys
import time
import traceback

VERIF = os.path.dirname(os.path.dirname(os.path.abspath(__file__)))
REPO = os.environ.get("VERIF_REPO", "/repo")
PY = os.path.join(VERIF, ".venv", "bin", "python")
EXIT_OK, EXIT_VIOLATION, EXIT_HARNESS = 0, 1, 3


# ------------------------------------------------------------------------------------------------ worker side
def _worker(job):
    modname, task = job
    t0 = time.time()
    out = {"task": task["name"], "paths": 0, "completed": 0, "aborted": 0, "violations": [], "inconclusive": [],
           "checks": 0, "solver_s": 0.0, "wall": 0.0, "labels": {}, "samples": [], "capped": False, "error": None,
           "remaining": 0, "known_hits": []}
    try:
        from . import core
        mod = importlib.import_module(modname)
        fn = getattr(mod, task["fn"])
        harness = fn(**task.get("args", {}))
        deadline = t0 + task.get("budget_s", 600)
        core.SOLVER_TIMEOUT_MS = task.get("solver_timeout_ms", 30000)
        res = core.explore(harness, max_paths=task.get("max_paths", 100000), deadline=deadline)
        out.update(paths=res.paths, completed=res.completed, aborted=res.aborted, violations=res.violations,
                   inconclusive=res.inconclusive, checks=res.checks, solver_s=res.solver_s, labels=res.labels,
                   samples=res.samples, capped=res.capped, known_hits=res.known_hits, remaining=len(getattr(res, "remaining", []) or []))
    except BaseException as e:  # noqa
        out["error"] = "%s: %s\n%s" % (type(e).__name__, e, traceback.format_exc()[-1500:])
    out["wall"] = time.time() - t0
    return out


def run_tasks(modname, tasks, nprocs=None):
    nprocs = nprocs or min(16, os.cpu_count() or 1, max(1, len(tasks)))
    jobs = [(modname, t) for t in tasks]
    if nprocs == 1 or len(jobs) == 1:
        return [_worker(j) for j in jobs]
    ctx = mp.get_context("fork")
    with ctx.Pool(nprocs, maxtasksperchild=8) as pool:
        return list(pool.imap(_worker, jobs, chunksize=1))


# ------------------------------------------------------------------------------------------------ replay
def replay_native(check_id, spec, idx):
    """run the concrete counterexample against the uninstrumented repository in a fresh process.
    returns (reproduced: bool|None, detail, path)"""
    d = os.path.join(os.environ.get("VERIF_REPLAY_DIR", os.path.join(VERIF, "replays")), check_id)
    os.makedirs(d, exist_ok=True)
    path = os.path.join(d, "%s.json" % idx)
    with open(path, "w") as f:
        json.dump(spec, f, indent=1, sort_keys=True, default=str)
    env = dict(os.environ, VERIF_REPO=REPO, PYTHONDONTWRITEBYTECODE="1")
    try:
        p = subprocess.run([PY, os.path.join(VERIF, "run_check.py"), check_id, "--replay", path],
                           capture_output=True, text=True, timeout=300, env=env)
    except subprocess.TimeoutExpired:
        return None, "replay timeout", path
    last = [ln for ln in p.stdout.splitlines() if ln.startswith("REPLAY ")]
    if not last:
        return None, "replay crashed: " + (p.stderr[-600:] or p.stdout[-300:]), path
    verdict = json.loads(last[-1][len("REPLAY "):])
    return verdict["violates"], verdict, path


def load_known():
    p = os.path.join(VERIF, "known_findings.json")
    if not os.path.exists(p):
        return []
    return json.load(open(p)).get("findings", [])


# ------------------------------------------------------------------------------------------------ evidence
def write_evidence(check_id, tier, seed, coverage, assumptions, wall, violations, level="other"):
    d = os.environ.get("VERIF_EVIDENCE_DIR", os.path.join(VERIF, "evidence"))
    os.makedirs(d, exist_ok=True)
    ev = {"property_id": check_id, "tier": tier, "seed": int(seed), "level": level, "coverage": coverage,
          "assumptions": assumptions, "wall_s": round(wall, 2), "violations": int(violations)}
    with open(os.path.join(d, "%s.json" % check_id), "w") as f:
        json.dump(ev, f, indent=1, default=str)
    return ev


def summarize(results):
    tot = {"tasks": len(results), "paths": 0, "completed": 0, "aborted": 0, "inconclusive": 0, "solver_calls": 0,
           "solver_s": 0.0, "cpu_s": 0.0, "capped_tasks": [], "errors": [], "labels": {}}
    for r in results:
        tot["paths"] += r["paths"]
        tot["completed"] += r["completed"]
        tot["aborted"] += r["aborted"]
        tot["inconclusive"] += len(r["inconclusive"])
        tot["solver_calls"] += r["checks"]
        tot["solver_s"] += r["solver_s"]
        tot["cpu_s"] += r["wall"]
        if r["capped"]:
            tot["capped_tasks"].append({"task": r["task"], "pending_prefixes": r["remaining"]})
        if r["error"]:
            tot["errors"].append({"task": r["task"], "error": r["error"][:400]})
    tot["solver_s"] = round(tot["solver_s"], 2)
    tot["cpu_s"] = round(tot["cpu_s"], 2)
    return tot


class Verdicts:
    """collects violations / known findings / harness problems and turns them into stdout lines + exit code"""

    def __init__(self, check_id):
        self.check_id = check_id
        self.violations = []      # (replay path, description)
        self.known = {}           # finding id -> count
        self.harness = []         # problems that make the run unusable
        self.notes = []

    def exit_code(self):
        for fid, (n, what) in sorted(self.known.items()):
            print("KNOWN-FINDING: property=%s %s [%s, %d counterexample(s) this run]" % (self.check_id, what, fid, n))
        for path, desc in self.violations:
            print("VIOLATION property=%s replay=%s" % (self.check_id, path))
            print("  " + desc)
        for h in self.harness:
            print("HARNESS-ERROR property=%s %s" % (self.check_id, h))
        sys.stdout.flush()
        if self.violations:
            return EXIT_VIOLATION
        if self.harness:
            return EXIT_HARNESS
        return EXIT_OK
