"""symx: proxy-object symbolic execution of the real dateparser modules with z3 (see DESIGN.md §2.1)."""
