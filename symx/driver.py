"""Generic driver of a symx-based check module (see checks/*.py for the module interface)."""
import json
import os
import time

from . import runner

MAX_REPLAYS_PER_TASK = 3
MAX_PROBES_PER_TASK = 10


def run_symx_check(mod, tier, seed, only=None, procs=None, extra_cov=None, pre_verdicts=None):
    t0 = time.time()
    cid = mod.ID
    rdir = os.path.join(os.environ.get("VERIF_REPLAY_DIR", os.path.join(runner.VERIF, "replays")), cid)
    if os.path.isdir(rdir) and not only:
        for f in os.listdir(rdir):
            if f.startswith(tier + "_"):
                os.remove(os.path.join(rdir, f))
    tasks = mod.tasks(tier, seed)
    if only:
        tasks = [t for t in tasks if only in t["name"]]
    tindex = {t["name"]: t for t in tasks}
    # longest budgets first so that the pool drains evenly
    order = sorted(tasks, key=lambda t: -t.get("budget_s", 0))
    results = runner.run_tasks(mod.__name__, order, procs)
    V = pre_verdicts or runner.Verdicts(cid)
    known = [k for k in runner.load_known() if k.get("property") == cid and k.get("status", "open") == "open"]
    nrep = 0
    replayed, reproduced, probes, probe_hits = 0, 0, 0, 0
    sample_violations = []
    unrealizable = []
    known_replays = {}
    for r in results:
        task = tindex[r["task"]]
        if r["error"]:
            V.harness.append("task %s crashed: %s" % (r["task"], r["error"].splitlines()[0][:200]))
            continue
        seen_specs = set()
        for viol in r["violations"][:MAX_REPLAYS_PER_TASK]:
            try:
                spec = mod.build_spec(task, viol)
            except Exception as e:  # noqa
                V.harness.append("task %s: cannot build replay spec: %s" % (r["task"], e))
                continue
            key = json.dumps(spec.get("call"), sort_keys=True, default=str)
            if key in seen_specs:
                continue
            seen_specs.add(key)
            nrep += 1
            ok, verdict, path = runner.replay_native(cid, spec, "%s_%d" % (tier, nrep))
            replayed += 1
            if ok is True:
                reproduced += 1
                fid = mod.classify_known(spec, verdict, known) if hasattr(mod, "classify_known") else None
                if fid:
                    what = next(k["what"] for k in known if k["id"] == fid)
                    n, _ = V.known.get(fid, (0, what))
                    V.known[fid] = (n + 1, what)
                else:
                    V.violations.append((path, "[%s] %s" % (r["task"], verdict.get("detail", ""))))
                    sample_violations.append({"task": r["task"], "detail": verdict.get("detail", "")[:300]})
            elif ok is False and verdict.get("unrealizable"):
                unrealizable.append({"task": r["task"], "detail": str(verdict.get("detail"))[:200]})
            elif ok is False:
                V.harness.append("task %s: solver counterexample did not reproduce natively (engine/oracle mismatch): %s"
                                 % (r["task"], str(verdict.get("detail"))[:300]))
            else:
                V.harness.append("task %s: replay failed: %s" % (r["task"], str(verdict)[:300]))
        # listed known findings: a witness inside the finding's region is replayed; it is reported as KNOWN-FINDING only
        # if it reproduces natively AND shows the characterised wrong behaviour
        for hit in r.get("known_hits", []):
            fid = hit["id"]
            if known_replays.get(fid, 0) >= 2 or fid not in {k["id"] for k in known}:
                continue
            known_replays[fid] = known_replays.get(fid, 0) + 1
            try:
                spec = mod.build_spec(task, {"witness": hit["witness"], "info": {}})
            except Exception as e:  # noqa
                V.harness.append("task %s: cannot build spec for known-finding witness: %s" % (r["task"], e))
                continue
            nrep += 1
            ok, verdict, path = runner.replay_native(cid, spec, "%s_known%d" % (tier, nrep))
            if ok is True:
                got = mod.classify_known(spec, verdict, known)
                if got in {k["id"] for k in known}:
                    # (regions of two listed findings may overlap: the witness is credited to the one it shows)
                    what = next(k["what"] for k in known if k["id"] == got)
                    n, _ = V.known.get(got, (0, what))
                    V.known[got] = (n + 1, what)
                else:
                    V.violations.append((path, "[%s] %s" % (r["task"], verdict.get("detail", ""))))
            elif ok is None:
                V.harness.append("task %s: replay failed: %s" % (r["task"], str(verdict)[:300]))
        # concolic probe of inconclusive paths: a model of the path condition is run natively against the oracle
        wits = []
        for inc in [i for i in r["inconclusive"] if i.get("witness")]:
            for w in inc["witness"]:
                if w not in wits:
                    wits.append(w)
        for w in wits[:MAX_PROBES_PER_TASK]:
            try:
                spec = mod.build_spec(task, {"witness": w, "info": {}})
            except Exception:
                continue
            nrep += 1
            probes += 1
            ok, verdict, path = runner.replay_native(cid, spec, "%s_probe%d" % (tier, nrep))
            if ok is True:
                fid = mod.classify_known(spec, verdict, known) if hasattr(mod, "classify_known") else None
                if fid:
                    what = next(k["what"] for k in known if k["id"] == fid)
                    n, _ = V.known.get(fid, (0, what))
                    V.known[fid] = (n + 1, what)
                else:
                    probe_hits += 1
                    V.violations.append((path, "[%s, witness of an inconclusive path] %s" % (r["task"], verdict.get("detail", ""))))
            else:
                try:
                    os.remove(path)
                except OSError:
                    pass
    # open findings that carry concrete example specs are re-confirmed natively on every run
    for k in known:
        for spec in k.get("replay_specs", []):
            nrep += 1
            ok, verdict, path = runner.replay_native(cid, spec, "%s_known_example%d" % (tier, nrep))
            if ok is True and mod.classify_known(spec, verdict, known) == k["id"]:
                n, _ = V.known.get(k["id"], (0, k["what"]))
                V.known[k["id"]] = (n + 1, k["what"])
            elif ok is True:
                V.violations.append((path, "[known-finding example behaves differently] %s" % verdict.get("detail", "")))
    if hasattr(mod, "extra_phase"):
        try:
            extra_cov = dict(extra_cov or {}, **(mod.extra_phase(tier, seed, V) or {}))
        except Exception as e:  # noqa
            extra_cov = dict(extra_cov or {}, extra_phase_error=str(e)[:300])
    tot = runner.summarize(results)
    if tot["completed"] == 0 and not V.violations:
        V.harness.append("no path completed in any task: nothing was checked")
    why = {}
    for r in results:
        for i in r["inconclusive"]:
            k = i["why"][:120]
            why[k] = why.get(k, 0) + 1
    samples = []
    for r in results[:40]:
        for s in r["samples"][:1]:
            samples.append({"task": r["task"], "path_class": s["label"], "witness_of_path_condition": s["witness"]})
    per_task = [{"task": r["task"], "paths": r["paths"], "completed": r["completed"], "inconclusive": len(r["inconclusive"]),
                 "capped": r["capped"], "violations": len(r["violations"]), "solver_calls": r["checks"],
                 "cpu_s": round(r["wall"], 1), "labels": r["labels"]} for r in results]
    complete = (not tot["capped_tasks"]) and tot["inconclusive"] == 0 and not tot["errors"]
    cov = {
        "explanation": (
            "Bounded symbolic execution of the real code re-imported from %s (AST-instrumented loader, proxy objects, "
            "z3): for each task (template x configuration) all feasible paths are enumerated by decision-prefix DFS; on "
            "every completed path the obligation 'path condition AND NOT property' was decided unsat by z3 "
            "(a sat answer is a counterexample, replayed on the uninstrumented repository before it is reported). "
            "Inconclusive paths (engine could not model an operation / solver unknown) and capped tasks are listed and "
            "are NOT counted as passed." % runner.REPO),
        "evaluations": tot["completed"],
        "distinct_nontrivial": tot["completed"],
        "rule": "one evaluation = one completed path of one task with its obligation decided by z3; paths are distinct by "
                "construction (different decision prefixes); every counted path has a satisfiable path condition "
                "(reachability witness obtained from the solver)",
        "samples": samples[:25],
        "functions_encoded": getattr(mod, "ENCODED", []),
        "tasks": tot["tasks"], "paths_explored": tot["paths"], "obligations_discharged": tot["completed"] - sum(
            len(r["violations"]) for r in results),
        "paths_infeasible_or_assumed_away": tot["aborted"],
        "inconclusive_paths": tot["inconclusive"], "inconclusive_reasons": why,
        "capped_tasks_not_fully_covered": tot["capped_tasks"],
        "task_errors": tot["errors"],
        "solver_queries": tot["solver_calls"], "solver_time_s": tot["solver_s"], "cpu_time_s": tot["cpu_s"],
        "counterexamples_replayed": replayed, "counterexamples_reproduced": reproduced,
        "inconclusive_paths_probed_concretely": probes, "probe_violations": probe_hits,
        "violation_samples": sample_violations[:5],
        "witnesses_not_realizable_under_real_environment": unrealizable[:10],
        "known_findings_hit": {k: v[0] for k, v in V.known.items()},
        "exhaustive": False,
        "all_tasks_fully_explored": complete,
        "per_task": per_task,
    }
    if extra_cov:
        cov.update(extra_cov)
    runner.write_evidence(cid, tier, seed, cov, getattr(mod, "ASSUMPTIONS", []), time.time() - t0, len(V.violations))
    print("%s %s: tasks=%d paths=%d completed=%d inconclusive=%d capped=%d solver_calls=%d solver=%.0fs cpu=%.0fs wall=%.0fs"
          % (cid, tier, tot["tasks"], tot["paths"], tot["completed"], tot["inconclusive"], len(tot["capped_tasks"]),
             tot["solver_calls"], tot["solver_s"], tot["cpu_s"], time.time() - t0))
    return V.exit_code()
