"""Replay side: runs a concrete call against the UNINSTRUMENTED repository (fresh process), with an optional frozen
clock, and hands the outcome to the check's native oracle (plain datetime arithmetic)."""
import datetime as _dt
import os
import sys

REPO = os.environ.get("VERIF_REPO", "/repo")


def import_repo():
    if sys.path[0] != REPO:
        sys.path.insert(0, REPO)
    sys.dont_write_bytecode = True
    import dateparser
    assert os.path.realpath(dateparser.__file__).startswith(os.path.realpath(REPO) + os.sep), dateparser.__file__
    return dateparser


def dt_from(v):
    """[y,m,d,H,M,S,us] (+ optional offset seconds) -> datetime"""
    if v is None:
        return None
    if isinstance(v, dict):
        d = _dt.datetime(*v["f"])
        if v.get("off") is not None:
            d = d.replace(tzinfo=_dt.timezone(_dt.timedelta(seconds=v["off"])))
        return d
    return _dt.datetime(*v)


def dt_to(d):
    if d is None:
        return None
    out = {"f": [d.year, d.month, d.day, d.hour, d.minute, d.second, d.microsecond]}
    if d.tzinfo is not None:
        out["off"] = int(d.utcoffset().total_seconds())
    return out


def settings_from(spec_settings):
    out = {}
    for k, v in (spec_settings or {}).items():
        if k == "RELATIVE_BASE":
            out[k] = dt_from(v)
        else:
            out[k] = v
    return out


class frozen_clock:
    """freeze datetime.now/today/utcnow inside the repository's modules at a given UTC instant (process zone: UTC)"""

    def __init__(self, clock):
        self.clock = dt_from(clock) if clock is not None else None
        self.saved = []

    def __enter__(self):
        if self.clock is None:
            return self
        clk = self.clock

        class _Meta(type):
            def __instancecheck__(cls, inst):
                return isinstance(inst, _dt.datetime)

        class FrozenDT(_dt.datetime, metaclass=_Meta):
            @classmethod
            def now(cls, tz=None):
                base = cls(clk.year, clk.month, clk.day, clk.hour, clk.minute, clk.second, clk.microsecond)
                if tz is None:
                    if os.environ.get("TZ", "UTC") not in ("UTC", ""):
                        loc = base.replace(tzinfo=_dt.timezone.utc).astimezone()      # process zone (TZ environment)
                        return cls(loc.year, loc.month, loc.day, loc.hour, loc.minute, loc.second, loc.microsecond)
                    return base
                return base.replace(tzinfo=_dt.timezone.utc).astimezone(tz)

            @classmethod
            def today(cls):
                return cls.now()

            @classmethod
            def utcnow(cls):
                return cls(clk.year, clk.month, clk.day, clk.hour, clk.minute, clk.second, clk.microsecond)
        for name, mod in list(sys.modules.items()):
            if name.split(".")[0] == "dateparser" and mod is not None:
                if getattr(mod, "datetime", None) is _dt.datetime:
                    self.saved.append(mod)
                    mod.datetime = FrozenDT
        return self

    def __exit__(self, *a):
        for mod in self.saved:
            mod.datetime = _dt.datetime
        return False


def call_api(call, clock=None):
    """call = {"string":…, "languages":…, "locales":…, "region":…, "settings":…, "date_formats":…,
    "use_given_order":…}.  returns dict(date_obj, period, locale) or {"exception": "Type: msg"}"""
    if call.get("local_zone"):
        import time
        os.environ["TZ"] = call["local_zone"]       # before tzlocal is first asked (fresh replay process)
        time.tzset()
    dateparser = import_repo()
    from dateparser.date import DateDataParser
    kw = {}
    for k in ("languages", "locales", "region", "use_given_order"):
        if call.get(k) is not None:
            kw[k] = call[k]
    st = settings_from(call.get("settings"))
    with frozen_clock(clock):
        if call.get("local_zone") and clock is not None:
            # module-level constants computed from the local offset at import: as if the process had started at the frozen instant
            import dateparser.timezone_parser as _TZ
            if hasattr(_TZ, "get_local_tz_offset"):
                try:
                    new = _TZ.get_local_tz_offset()
                    for mod in list(sys.modules.values()):
                        if getattr(mod, "__name__", "").split(".")[0] == "dateparser" and hasattr(mod, "local_tz_offset"):
                            mod.local_tz_offset = new
                except Exception:  # noqa
                    pass
        try:
            parser = DateDataParser(settings=st or None, **kw)
            dd = parser.get_date_data(call["string"], call.get("date_formats"))
            return {"date_obj": dd.date_obj, "period": dd.period, "locale": dd.locale}
        except Exception as e:  # noqa: the oracle decides whether it was allowed
            return {"exception": "%s: %s" % (type(e).__name__, e), "exc_type": type(e).__name__}
