"""Symbolic regular-expression matching over template strings (TStr).

* A plain `str` subject always goes to the real compiled pattern.
* Digit-blind delegation: if every single-character atom of the pattern accepts either all or none of the ten digits
  of each script present in the subject, and the pattern has no back-reference, the match cannot depend on the digit
  values; it is computed by the REAL engine on the subject's digit-shape (symbolic digits written as their script's
  zero) and mapped back.
* Otherwise a backtracking interpreter walks the parse tree (re._parser).  Single-character atoms are never
  re-implemented: their source text is compiled with the real engine and asked about the concrete character or about
  the ten digits (10-bit signature).  The interpreter yields an ordered list of derivations with conditions;
  existence is decided by ONE merged branch; which derivation wins is decided lazily when spans/groups are read.
"""
import re as _re
import re._parser as _sp
import re._constants as _sc

import z3

from . import core
from .core import Unsupported, branch, SEnum
from .strings import SChar, TStr, LazyIntStr, coerce, wrap

MAX_DERIVS = 4000
_ATOM_OPS = (_sc.LITERAL, _sc.NOT_LITERAL, _sc.ANY, _sc.IN, _sc.CATEGORY)
_CAT = {
    _sc.CATEGORY_DIGIT: r"\d", _sc.CATEGORY_NOT_DIGIT: r"\D",
    _sc.CATEGORY_SPACE: r"\s", _sc.CATEGORY_NOT_SPACE: r"\S",
    _sc.CATEGORY_WORD: r"\w", _sc.CATEGORY_NOT_WORD: r"\W",
}
STATS = {"delegated": 0, "interpreted": 0, "concrete": 0}


def _atom_src(op, av):
    """regex source text for a single-char node"""
    if op is _sc.LITERAL:
        return _re.escape(chr(av))
    if op is _sc.NOT_LITERAL:
        return "[^%s]" % _re.escape(chr(av))
    if op is _sc.ANY:
        return "."
    if op is _sc.IN:
        out = []
        neg = False
        for o, a in av:
            if o is _sc.NEGATE:
                neg = True
            elif o is _sc.LITERAL:
                out.append(_re.escape(chr(a)))
            elif o is _sc.RANGE:
                out.append("%s-%s" % (_re.escape(chr(a[0])), _re.escape(chr(a[1]))))
            elif o is _sc.CATEGORY:
                out.append(_CAT[a])
            else:
                raise Unsupported("set item %r" % (o,))
        return "[%s%s]" % ("^" if neg else "", "".join(out))
    if op is _sc.CATEGORY:
        return _CAT[av]
    raise Unsupported("atom %r" % (op,))


class _Atom:
    """oracle for one-character atoms: the real engine decides"""
    cache = {}

    @classmethod
    def entry(cls, engine, src, flags):
        key = (engine.__name__, src, flags)
        ent = cls.cache.get(key)
        if ent is None:
            rx = engine.compile(src, flags)
            ent = cls.cache[key] = (rx, {}, {})
        return ent

    @classmethod
    def sig(cls, engine, src, flags, base):
        rx, sigs, _ = cls.entry(engine, src, flags)
        s = sigs.get(base)
        if s is None:
            s = sigs[base] = frozenset(k for k in range(10) if rx.fullmatch(chr(base + k)))
        return s

    @classmethod
    def cond(cls, engine, src, flags, ch):
        """True / False / z3 Bool: does the atom accept item ch"""
        if isinstance(ch, SChar):
            if ch.conv:
                raise Unsupported("regex on a partially transliterated digit")
            s = cls.sig(engine, src, flags, ch.base)
            if len(s) == 10:
                return True
            if not s:
                return False
            return z3.Or(*[ch.z == k for k in sorted(s)])
        rx, _, memo = cls.entry(engine, src, flags)
        r = memo.get(ch)
        if r is None:
            r = memo[ch] = rx.fullmatch(ch) is not None
        return r


def _conj(a, b):
    if a is True:
        return b
    if b is True:
        return a
    c = z3.simplify(z3.And(a, b))
    if z3.is_false(c):
        return False
    if z3.is_true(c):
        return True
    return c


_AFLAGS = _re.I | _re.S | _re.U


def _walk_atoms(seq, flags, out):
    """collect (src, flags) of every single-char atom; returns False if a back-reference occurs"""
    ok = True
    for op, av in seq:
        if op in _ATOM_OPS:
            out.add((_atom_src(op, av), flags & _AFLAGS))
        elif op is _sc.SUBPATTERN:
            ok &= _walk_atoms(list(av[3]), (flags | av[1]) & ~av[2], out)
        elif op is _sc.BRANCH:
            for a in av[1]:
                ok &= _walk_atoms(list(a), flags, out)
        elif op in (_sc.MAX_REPEAT, _sc.MIN_REPEAT, _sc.POSSESSIVE_REPEAT):
            ok &= _walk_atoms(list(av[2]), flags, out)
        elif op in (_sc.ASSERT, _sc.ASSERT_NOT):
            ok &= _walk_atoms(list(av[1]), flags, out)
        elif op is _sc.AT:
            pass
        elif op in (_sc.GROUPREF, _sc.GROUPREF_EXISTS):
            ok = False
        elif op is _sc.ATOMIC_GROUP:
            ok &= _walk_atoms(list(av), flags, out)
        else:
            raise Unsupported("regex op %r" % (op,))
    return ok


def _relaxed_src(seq, engine, flags):
    """regex source accepting a superset: every digit-discriminating atom also accepts any digit"""
    out = []
    for op, av in seq:
        if op in _ATOM_OPS:
            src = _atom_src(op, av)
            s = _Atom.sig(engine, src, flags & _AFLAGS, 48)
            out.append(src if len(s) in (0, 10) else "(?:%s|\\d)" % src)
        elif op is _sc.SUBPATTERN:
            out.append("(?:%s)" % _relaxed_src(list(av[3]), engine, (flags | av[1]) & ~av[2]))
        elif op is _sc.BRANCH:
            out.append("(?:%s)" % "|".join(_relaxed_src(list(a), engine, flags) for a in av[1]))
        elif op in (_sc.MAX_REPEAT, _sc.MIN_REPEAT):
            lo, hi, p = av
            q = "{%d,%s}" % (lo, "" if hi is _sc.MAXREPEAT else hi)
            out.append("(?:%s)%s%s" % (_relaxed_src(list(p), engine, flags), q, "?" if op is _sc.MIN_REPEAT else ""))
        elif op is _sc.AT:
            out.append({_sc.AT_BEGINNING: "^", _sc.AT_BEGINNING_STRING: "\\A", _sc.AT_END: "$", _sc.AT_END_STRING: "\\Z",
                        _sc.AT_BOUNDARY: "\\b", _sc.AT_NON_BOUNDARY: "\\B"}[av])
        elif op in (_sc.ASSERT, _sc.ASSERT_NOT):
            pass  # dropping an assertion only enlarges the language
        else:
            raise Unsupported("relax %r" % (op,))
    return "".join(out)


class SMatch:
    def __init__(self, pat, subject, groups, start, end):
        self.re, self.string, self._g, self._s, self._e = pat, subject, groups, start, end

    def _gid(self, g):
        if isinstance(g, str):
            if g not in self.re.groupindex:
                raise IndexError("no such group")
            return self.re.groupindex[g]
        return g

    def span(self, g=0):
        g = self._gid(g)
        if g == 0:
            return (self._s, self._e)
        if g > self.re.groups:
            raise IndexError("no such group")
        return self._g.get(g, (-1, -1))

    def start(self, g=0): return self.span(g)[0]
    def end(self, g=0): return self.span(g)[1]

    def group(self, *gs):
        if not gs:
            gs = (0,)
        out = []
        for g in gs:
            s, e = self.span(g)
            out.append(None if s < 0 else self.string[s:e])
        return out[0] if len(out) == 1 else tuple(out)

    __getitem__ = group

    def groups(self, default=None):
        return tuple(self.group(i) if self.span(i)[0] >= 0 else default for i in range(1, self.re.groups + 1))

    def groupdict(self, default=None):
        return {n: (self.group(i) if self.span(i)[0] >= 0 else default) for n, i in self.re.groupindex.items()}

    @property
    def lastindex(self):
        raise Unsupported("lastindex")

    def expand(self, template):
        return _expand(template, self)

    def __bool__(self):
        return True


class DeferredMatch(SMatch):
    """a match is known to exist; which derivation wins is decided (forking in priority order) on first use"""

    def __init__(self, pat, t, derivs):
        self.re, self.string, self._t, self._derivs, self._done = pat, wrap(t), t, derivs, False

    def _resolve(self):
        if self._done:
            return
        n = len(self._derivs)
        for k, (c, p, e, g) in enumerate(self._derivs):
            if c is True or k == n - 1 or branch(c):
                if c is not True and k == n - 1:
                    core.add(c)   # existence was already decided: the last alternative is implied
                self._g, self._s, self._e = g, p, e
                self._done = True
                return

    def span(self, g=0):
        self._resolve()
        return SMatch.span(self, g)


def _expand(template, m):
    out = TStr([])
    pos = 0
    for mo in _re.finditer(r"\\(?:(\d)|g<(\w+)>|(.))", template):
        out = coerce(out + template[pos:mo.start()])
        pos = mo.end()
        if mo.group(1) is not None:
            out = coerce(out + (m.group(int(mo.group(1))) or ""))
        elif mo.group(2) is not None:
            g = mo.group(2)
            out = coerce(out + (m.group(int(g) if g.isdigit() else g) or ""))
        else:
            esc = {"n": "\n", "t": "\t", "\\": "\\"}.get(mo.group(3))
            if esc is None:
                raise Unsupported("template escape \\%s" % mo.group(3))
            out = coerce(out + esc)
    out = coerce(out + template[pos:])
    return out


class SPattern:
    def __init__(self, pattern, flags=0, engine=_re):
        self.pattern, self.engine = pattern, engine
        self.real = engine.compile(pattern, flags)
        self.flags = flags
        self._tree_err = None
        self.tree = None
        self._blind = {}
        self._rx = None
        try:
            self._parse()
        except Unsupported as e:
            self._tree_err = str(e)
        except Exception as e:  # syntax only the `regex` module understands
            self._tree_err = "parse: %s" % e
        if self.tree is None:
            self.groups = self.real.groups
            self.groupindex = dict(self.real.groupindex)

    def _parse(self):
        # `regex` lets several groups share one name (and number); `re`'s parser does not: rename, then alias
        seen, dup = {}, {}

        def ren(mo):
            n = mo.group(1)
            seen[n] = seen.get(n, 0) + 1
            if seen[n] == 1:
                return mo.group(0)
            alias = "%s__dup%d" % (n, seen[n])
            dup[alias] = n
            return "(?P<%s>" % alias
        src = _re.sub(r"\(\?P<([A-Za-z_]\w*)>", ren, self.pattern)
        pf = int(self.flags) & (_re.I | _re.S | _re.M | _re.U | _re.X)
        tree = _sp.parse(src, pf)
        self.tflags = tree.state.flags
        gd = dict(tree.state.groupdict)
        self.alias = {gd[a]: gd[n] for a, n in dup.items()}
        ngroups = tree.state.groups - 1 - len(self.alias)
        if self.alias:
            # group numbers after an aliased group shift down in `regex`; build the full renumbering
            remap, nxt = {}, 1
            for g in range(1, tree.state.groups):
                if g in self.alias:
                    remap[g] = remap[self.alias[g]]
                else:
                    remap[g] = nxt
                    nxt += 1
            self.alias = remap
        self.groups = ngroups
        self.groupindex = {n: self.alias.get(g, g) for n, g in gd.items() if n not in dup}
        if self.groups != self.real.groups or any(self.real.groupindex.get(n) != g for n, g in self.groupindex.items()):
            raise Unsupported("group numbering differs from the real engine")
        self.tree = tree
        atoms = set()
        self._noref = _walk_atoms(list(tree), self.tflags, atoms)
        self._atoms = atoms

    # ---- digit-blindness
    def _is_blind(self, t):
        if any(isinstance(i, SChar) and i.conv for i in t.items):
            raise Unsupported("regex on a partially transliterated digit")
        if self.tree is None:
            return None
        if not self._noref:
            return False
        bases = frozenset(i.base for i in t.items if isinstance(i, SChar))
        r = self._blind.get(bases)
        if r is None:
            r = True
            for src, fl in self._atoms:
                for b in bases:
                    if len(_Atom.sig(self.engine, src, fl, b)) not in (0, 10):
                        r = False
                        break
                if not r:
                    break
            self._blind[bases] = r
        return r

    def _mode(self, t):
        b = self._is_blind(t)
        if b is None:
            raise Unsupported("regex not parseable for symbolic subject (%s): %.60r" % (self._tree_err, self.pattern))
        return b

    def _from_real(self, t, m):
        if m is None:
            return None
        g = {}
        for i in range(1, self.groups + 1):
            s = m.span(i)
            if s[0] >= 0:
                g[i] = s
        return SMatch(self, wrap(t), g, m.start(), m.end())

    # ---- the backtracking interpreter: generators of (pos, groups, cond)
    def _m(self, seq, i, s, pos, g, flags, cond=True):
        if i == len(seq):
            yield pos, g, cond
            return
        op, av = seq[i]
        n = len(s)
        if op in _ATOM_OPS:
            if pos < n:
                c = _Atom.cond(self.engine, _atom_src(op, av), flags & _AFLAGS, s[pos])
                if c is not False:
                    c2 = _conj(cond, c)
                    if c2 is not False:
                        yield from self._m(seq, i + 1, s, pos + 1, g, flags, c2)
            return
        if op is _sc.SUBPATTERN:
            gid, add, dele, p = av
            f2 = (flags | add) & ~dele
            for pos2, g2, c2 in self._m(list(p), 0, s, pos, g, f2, cond):
                if gid is not None:
                    g2 = dict(g2)
                    g2[self.alias.get(gid, gid)] = (pos, pos2)
                yield from self._m(seq, i + 1, s, pos2, g2, flags, c2)
            return
        if op is _sc.BRANCH:
            for alt in av[1]:
                for pos2, g2, c2 in self._m(list(alt), 0, s, pos, g, flags, cond):
                    yield from self._m(seq, i + 1, s, pos2, g2, flags, c2)
            return
        if op in (_sc.MAX_REPEAT, _sc.MIN_REPEAT):
            lo, hi, p = av
            p = list(p)
            greedy = op is _sc.MAX_REPEAT

            def rep(count, pos, g, cond):
                can_more = hi is _sc.MAXREPEAT or count < hi

                def more():
                    if can_more:
                        for pos2, g2, c2 in self._m(p, 0, s, pos, g, flags, cond):
                            if pos2 == pos and count >= lo:
                                continue
                            yield from rep(count + 1, pos2, g2, c2)

                def stop():
                    if count >= lo:
                        yield from self._m(seq, i + 1, s, pos, g, flags, cond)
                if greedy:
                    yield from more()
                    yield from stop()
                else:
                    yield from stop()
                    yield from more()
            yield from rep(0, pos, g, cond)
            return
        if op is _sc.AT:
            if av in (_sc.AT_BEGINNING, _sc.AT_BEGINNING_STRING):
                ok = pos == 0 or (av is _sc.AT_BEGINNING and flags & _re.M and s[pos - 1] == "\n")
            elif av is _sc.AT_END:
                ok = pos == n or (pos == n - 1 and s[pos] == "\n") or bool(flags & _re.M and pos < n and s[pos] == "\n")
            elif av is _sc.AT_END_STRING:
                ok = pos == n
            elif av in (_sc.AT_BOUNDARY, _sc.AT_NON_BOUNDARY):
                def isw(c):
                    return isinstance(c, SChar) or _Atom.cond(self.engine, r"\w", flags & _re.U, c)
                a = pos > 0 and isw(s[pos - 1])
                b = pos < n and isw(s[pos])
                ok = (a != b) if av is _sc.AT_BOUNDARY else (a == b)
            else:
                raise Unsupported("anchor %r" % (av,))
            if ok:
                yield from self._m(seq, i + 1, s, pos, g, flags, cond)
            return
        if op in (_sc.ASSERT, _sc.ASSERT_NOT):
            direction, p = av
            alts = []
            if direction < 0:
                for st in range(pos, -1, -1):
                    for e2, g2, c2 in self._m(list(p), 0, s, st, g, flags, True):
                        if e2 == pos:
                            alts.append(c2)
                            if c2 is True:
                                break
                    if alts and alts[-1] is True:
                        break
            else:
                for e2, g2, c2 in self._m(list(p), 0, s, pos, g, flags, True):
                    alts.append(c2)
                    if c2 is True:
                        break
            if any(a is True for a in alts):
                hit = True
            elif not alts:
                hit = False
            else:
                hit = z3.simplify(z3.Or(*alts))
            if op is _sc.ASSERT_NOT:
                hit = (not hit) if isinstance(hit, bool) else z3.Not(hit)
            if hit is not False:
                c3 = _conj(cond, hit)
                if c3 is not False:
                    yield from self._m(seq, i + 1, s, pos, g, flags, c3)
            return
        if op is _sc.GROUPREF:
            gid = self.alias.get(av, av)
            if gid not in g:
                return
            a, b = g[gid]
            ln = b - a
            if pos + ln > n:
                return
            x, y = TStr(s[a:b]), TStr(s[pos:pos + ln])
            if flags & _re.I:
                x, y = coerce(x.lower()), coerce(y.lower())
                if len(x) != len(y):
                    raise Unsupported("case folding changed length in back-reference")
            c = x._eq_z(y)
            if c is not False:
                c2 = _conj(cond, c)
                if c2 is not False:
                    yield from self._m(seq, i + 1, s, pos + ln, g, flags, c2)
            return
        raise Unsupported("regex op %r" % (op,))

    def _items(self, subject):
        if isinstance(subject, LazyIntStr):
            subject = subject._force()
        t = coerce(subject)
        if t is None:
            raise TypeError("expected string or bytes-like object, got %r" % type(subject).__name__)
        return t

    def _relaxed(self):
        if self._rx is None:
            try:
                self._rx = _re.compile(_relaxed_src(list(self.tree), self.engine, self.tflags),
                                       self.tflags & (_re.I | _re.S | _re.M | _re.U))
            except (Unsupported, _re.error):
                self._rx = False
        return self._rx

    def _cannot_match(self, t):
        if any(isinstance(i, SChar) and i.base != 48 for i in t.items):
            return False
        r = self._relaxed()
        return bool(r) and r.search(t.shape("0")) is None

    def _derivs(self, t, starts, full=False):
        out = []
        seq = list(self.tree)
        for p in starts:
            for end, g, c in self._m(seq, 0, t.items, p, {}, self.tflags, True):
                if full and end != len(t.items):
                    continue
                out.append((c, p, end, g))
                if c is True:
                    return out
                if len(out) > MAX_DERIVS:
                    raise Unsupported("too many regex derivations")
        return out

    def _decide(self, t, derivs):
        """one merged existence branch; returns None or a (deferred) match"""
        if not derivs:
            return None
        if derivs[0][0] is True:
            c, p, e, g = derivs[0]
            return SMatch(self, wrap(t), g, p, e)
        if not any(d[0] is True for d in derivs):
            if not branch(z3.Or(*[d[0] for d in derivs])):
                return None
        return DeferredMatch(self, t, derivs)

    def _concrete(self, subject):
        return isinstance(subject, str)

    # ---- public API
    def match(self, subject, pos=0):
        if isinstance(subject, SEnum):
            subject = subject.concrete()
        if self._concrete(subject):
            return self.real.match(subject, pos)
        t = self._items(subject)
        if self._mode(t):
            STATS["delegated"] += 1
            return self._from_real(t, self.real.match(t.shape("0"), pos))
        STATS["interpreted"] += 1
        return self._decide(t, self._derivs(t, [pos]))

    def fullmatch(self, subject):
        if isinstance(subject, SEnum):
            subject = subject.concrete()
        if self._concrete(subject):
            return self.real.fullmatch(subject)
        t = self._items(subject)
        if self._mode(t):
            STATS["delegated"] += 1
            return self._from_real(t, self.real.fullmatch(t.shape("0")))
        STATS["interpreted"] += 1
        return self._decide(t, self._derivs(t, [0], full=True))

    def search(self, subject, pos=0):
        if isinstance(subject, SEnum):
            subject = subject.concrete()
        if self._concrete(subject):
            return self.real.search(subject, pos)
        t = self._items(subject)
        if self._mode(t):
            STATS["delegated"] += 1
            return self._from_real(t, self.real.search(t.shape("0"), pos))
        if pos == 0 and self._cannot_match(t):
            return None
        STATS["interpreted"] += 1
        return self._decide(t, self._derivs(t, range(pos, len(t.items) + 1)))

    def finditer(self, subject):
        if isinstance(subject, SEnum):
            subject = subject.concrete()
        if self._concrete(subject):
            yield from self.real.finditer(subject)
            return
        t = self._items(subject)
        if self._mode(t):
            STATS["delegated"] += 1
            for m in self.real.finditer(t.shape("0")):
                yield self._from_real(t, m)
            return
        p = 0
        while p <= len(t.items):
            m = self.search(t, p)
            if m is None:
                return
            yield m
            p = m.end() if m.end() > m.start() else m.end() + 1

    def findall(self, subject):
        if isinstance(subject, SEnum):
            subject = subject.concrete()
        if self._concrete(subject):
            return self.real.findall(subject)
        out = []
        for m in self.finditer(subject):
            if self.groups == 0:
                out.append(m.group())
            elif self.groups == 1:
                out.append(m.group(1) or "")
            else:
                out.append(tuple(x or "" for x in m.groups()))
        return out

    def sub(self, repl, subject, count=0):
        if isinstance(subject, SEnum):
            subject = subject.concrete()
        if self._concrete(subject) and not isinstance(repl, (TStr, LazyIntStr)):
            return self.real.sub(repl, subject, count)
        if callable(repl):
            f = repl
        elif isinstance(repl, str) and "\\" in repl:
            def f(m, _r=repl):
                return _expand(_r, m)
        else:
            def f(m, _r=repl):
                return _r
        t = self._items(subject)
        out, last, n = TStr([]), 0, 0
        for m in self.finditer(t if not self._concrete(subject) else subject):
            out = coerce(coerce(out + TStr(t.items[last:m.start()])) + f(m))
            last = m.end()
            n += 1
            if count and n >= count:
                break
        return wrap(coerce(out + TStr(t.items[last:])))

    def subn(self, repl, subject, count=0):
        raise Unsupported("subn")

    def split(self, subject, maxsplit=0):
        if isinstance(subject, SEnum):
            subject = subject.concrete()
        if self._concrete(subject):
            return self.real.split(subject, maxsplit)
        t = self._items(subject)
        out, last, n = [], 0, 0
        for m in self.finditer(t):
            out.append(wrap(TStr(t.items[last:m.start()])))
            out.extend(m.groups())
            last = m.end()
            n += 1
            if maxsplit and n >= maxsplit:
                break
        out.append(wrap(TStr(t.items[last:])))
        return out

    def __repr__(self):
        return "SPattern(%.50r)" % (self.pattern,)


class SymRe:
    """module facade standing in for `re` / `regex` inside the analysed modules"""

    def __init__(self, engine):
        self.engine = engine
        self._cache = {}

    def __getattr__(self, name):
        return getattr(self.engine, name)

    def compile(self, pattern, flags=0, **kw):
        if isinstance(pattern, SPattern):
            return pattern
        if hasattr(pattern, "pattern") and not isinstance(pattern, (str, TStr)):
            pattern, flags = pattern.pattern, pattern.flags
        if isinstance(pattern, (TStr, LazyIntStr)):
            raise Unsupported("regex pattern built from symbolic text")
        flags = int(flags)
        k = (pattern, flags)
        p = self._cache.get(k)
        if p is None:
            p = self._cache[k] = SPattern(pattern, flags, self.engine)
        return p

    def match(self, p, s, flags=0): return self.compile(p, flags).match(s)
    def fullmatch(self, p, s, flags=0): return self.compile(p, flags).fullmatch(s)
    def search(self, p, s, flags=0): return self.compile(p, flags).search(s)
    def sub(self, p, r, s, count=0, flags=0): return self.compile(p, flags).sub(r, s, count)
    def split(self, p, s, maxsplit=0, flags=0): return self.compile(p, flags).split(s, maxsplit)
    def findall(self, p, s, flags=0): return self.compile(p, flags).findall(s)
    def finditer(self, p, s, flags=0): return self.compile(p, flags).finditer(s)

    def escape(self, s, *a, **k):
        if isinstance(s, (TStr, LazyIntStr)):
            raise Unsupported("re.escape of symbolic text")
        return self.engine.escape(s, *a, **k)
