"""symx core: path-sensitive symbolic execution of ordinary Python code by proxy objects, z3 back end.

One *path* is one ordinary execution of the harness function.  Every truth test on a symbolic value goes through
`branch(cond)`, the only forking point: the decision taken is recorded, the alternative (if feasible) is queued as a
decision prefix and explored later by re-execution (DFS, no state snapshots).  At the end of a path the harness returns an
obligation (a z3 Bool); `PC and not obligation` must be unsat.

Engine-steering exceptions derive from BaseException because the analysed code is full of `except Exception: pass`.
"""
import time as _time

import z3


class Unsupported(BaseException):
    """the engine cannot model what the code did on this path -> the path is *inconclusive* (never a pass)"""


class Abort(BaseException):
    """path infeasible / assumption failed"""


class Divergence(BaseException):
    """a replayed decision prefix met a different condition than the one recorded: engine bug, never a pass"""


SOLVER_TIMEOUT_MS = 30000
SCATTER_MODELS = 3


class Ctx:
    def __init__(self, prefix):
        self.prefix = prefix  # list of (decision, cond-hash)
        self.decisions = []
        self.solver = z3.Solver()
        self.solver.set("timeout", SOLVER_TIMEOUT_MS)
        self.fresh = 0
        self.nchecks = 0
        self.solver_s = 0.0
        self.pending = []
        self.model = None
        self.since = []      # constraints asserted since self.model was obtained
        self.notes = {}
        self.forks = {}
        self.hmemo = {}

    def check(self, *extra):
        self.nchecks += 1
        t0 = _time.time()
        r = self.solver.check(*extra)
        self.solver_s += _time.time() - t0
        if r == z3.unknown:
            raise Unsupported("solver unknown: %s" % self.solver.reason_unknown())
        if r == z3.sat:
            self.model = self.solver.model()
            self.since = []
        return r == z3.sat

    def assert_(self, *conds):
        self.solver.add(*conds)
        if self.model is not None:
            self.since.extend(conds)

    def model_eval(self, cond):
        """truth of cond under the last model, if that model still satisfies the current PC"""
        m = self.model
        if m is None:
            return None
        for a in self.since:
            if not z3.is_true(m.eval(a, model_completion=True)):
                self.model = None
                self.since = []
                return None
        self.since = []
        v = m.eval(cond, model_completion=True)
        if z3.is_true(v):
            return True
        if z3.is_false(v):
            return False
        return None


CUR = None
_COMM = None


def stable_hash(e, memo):
    """structural hash that does not depend on the argument order z3.simplify gives commutative operators (that order
    follows internal AST ids, i.e. allocation history, and differs between re-executions of the same path)"""
    global _COMM
    if _COMM is None:
        _COMM = {z3.Z3_OP_AND, z3.Z3_OP_OR, z3.Z3_OP_ADD, z3.Z3_OP_MUL, z3.Z3_OP_EQ, z3.Z3_OP_DISTINCT, z3.Z3_OP_IFF}
    i = e.get_id()
    h = memo.get(i)
    if h is not None:
        return h
    if z3.is_app(e):
        n = e.num_args()
        if n == 0:
            h = hash(("leaf", str(e)))
        else:
            k = e.decl().kind()
            hs = [stable_hash(e.arg(j), memo) for j in range(n)]
            if k in _COMM:
                hs.sort()
            h = hash((k, e.decl().name() if k == z3.Z3_OP_UNINTERPRETED else "", tuple(hs)))
    else:
        h = hash(("other", str(e)))
    memo[i] = h
    return h


def cur():
    return CUR


def fresh_int(name):
    CUR.fresh += 1
    return z3.Int("%s!%d" % (name, CUR.fresh))


def register_input(name, term, lo=None, hi=None):
    """harness inputs whose values are reported with models of an inconclusive path (concolic probe)"""
    CUR.notes.setdefault("inputs", {})[name] = term
    if lo is not None:
        CUR.notes.setdefault("bounds", {})[name] = (lo, hi)


def _inputs_witness():
    """values of the registered inputs under models of the current path condition: an arbitrary model plus, when
    bounds are known, the greedy upper and lower corner models (None if unavailable)"""
    try:
        c = CUR
        ins = c.notes.get("inputs")
        if not ins:
            return None
        sol = c.solver
        sol.set("timeout", 5000)
        if sol.check() != z3.sat:
            return None
        out = [_eval_wit(sol.model(), ins)]
        bounds = c.notes.get("bounds", {})
        for side in (1, 0):
            sol.push()
            try:
                for name, term in ins.items():
                    if name in bounds:
                        sol.push()
                        sol.add(term == bounds[name][side])
                        if sol.check() != z3.sat:
                            sol.pop()
                if sol.check() == z3.sat:
                    w = _eval_wit(sol.model(), ins)
                    if w not in out:
                        out.append(w)
            finally:
                while sol.num_scopes() > 0:
                    sol.pop()
        # scattered models: residue constraints on the inputs (deterministic per path), so that the concrete probes of an
        # inconclusive path do not all sit at the solver's favourite corner
        import random
        rnd = random.Random(len(c.decisions) * 7919 + len(ins))
        for _ in range(SCATTER_MODELS):
            sol.push()
            try:
                for name, term in ins.items():
                    if not z3.is_int(term):
                        continue
                    p = rnd.choice((3, 5, 7, 11, 13))
                    sol.push()
                    sol.add(term % p == rnd.randrange(p))
                    if sol.check() != z3.sat:
                        sol.pop()
                if sol.check() == z3.sat:
                    w = _eval_wit(sol.model(), ins)
                    if w not in out:
                        out.append(w)
            finally:
                while sol.num_scopes() > 0:
                    sol.pop()
        return out
    except BaseException:  # noqa
        return None


def fresh_bool(name):
    CUR.fresh += 1
    return z3.Bool("%s!%d" % (name, CUR.fresh))


def _z(x):
    if isinstance(x, (SBool, SInt)):
        return x.z
    return x


def add(*conds):
    """add constraints that are true by construction (definitions of fresh variables)"""
    CUR.assert_(*conds)


def assume(cond):
    cond = _z(cond)
    if isinstance(cond, bool):
        if not cond:
            raise Abort()
        return
    CUR.assert_(cond)
    if not CUR.check():
        raise Abort()


def _site():
    import sys
    f = sys._getframe(2)
    for _ in range(12):
        fn = f.f_code.co_filename
        if "/symx/" not in fn:
            return "%s:%d" % (fn.rsplit("/", 1)[-1], f.f_lineno)
        f = f.f_back
        if f is None:
            break
    return "?"


PROFILE_FORKS = False
DEBUG = False


def branch(cond):
    """Decide the truth of z3 Bool `cond` on this path, forking if both sides are feasible."""
    c = CUR
    if c is None:
        raise Unsupported("symbolic branch outside exploration")
    cond = z3.simplify(cond)
    if z3.is_true(cond):
        return True
    if z3.is_false(cond):
        return False
    i = len(c.decisions)
    h = stable_hash(cond, c.hmemo)
    if i < len(c.prefix):
        d, ph = c.prefix[i]
        if ph != h:
            raise Divergence("decision %d: condition differs on replay at %s: %s" % (i, _site(), str(cond)[:300]))
        c.decisions.append((d, h))
        c.assert_(cond if d else z3.Not(cond))
        return d
    mv = c.model_eval(cond)
    if mv is True:
        can_t = True
        can_f = c.check(z3.Not(cond))
    elif mv is False:
        can_f = True
        can_t = c.check(cond)
    else:
        can_t = c.check(cond)
        can_f = c.check(z3.Not(cond)) if can_t else True
        if not can_t and not can_f:
            raise Abort()
    if can_t and can_f:
        if PROFILE_FORKS:
            s = _site()
            c.forks[s] = c.forks.get(s, 0) + 1
        c.pending.append(list(c.decisions) + [(False, h)])
        c.decisions.append((True, h))
        c.assert_(cond)
        if DEBUG:
            print("FORK", i, _site(), str(cond)[:300])
        return True
    if can_t:
        c.decisions.append((True, h))
        c.solver.add(cond)  # implied, but keeps the replayed solver state identical
        return True
    if can_f:
        c.decisions.append((False, h))
        c.assert_(z3.Not(cond))
        return False
    raise Abort()


class SBool:
    __slots__ = ("z",)

    def __init__(self, z):
        self.z = z

    def __bool__(self):
        return branch(self.z)

    def __repr__(self):
        return "SBool(%s)" % self.z

    __hash__ = None


def mkbool(z):
    if isinstance(z, bool):
        return z
    z = z3.simplify(z)
    if z3.is_true(z):
        return True
    if z3.is_false(z):
        return False
    return SBool(z)


def _zb(x):
    if isinstance(x, SBool):
        return x.z
    if isinstance(x, bool):
        return z3.BoolVal(x)
    if isinstance(x, SInt):
        return x.z != 0
    if isinstance(x, int):
        return z3.BoolVal(bool(x))
    return x


def S_and(*xs):
    return mkbool(z3.And(*[_zb(x) for x in xs]))


def S_or(*xs):
    return mkbool(z3.Or(*[_zb(x) for x in xs]))


def S_not(x):
    return mkbool(z3.Not(_zb(x)))


def _zi(x):
    if isinstance(x, SInt):
        return x.z
    if isinstance(x, bool):
        return z3.IntVal(int(x))
    if isinstance(x, int):
        return z3.IntVal(x)
    if isinstance(x, float) and x == int(x):
        return z3.IntVal(int(x))
    if z3.is_expr(x):
        return x
    raise Unsupported("int operand %r" % (type(x),))


# ------------------------------------------------------------------------------------------------ IEEE doubles
class SFloat:
    """proxy for a Python float whose value is a z3 Float64 term (IEEE-754 binary64, round-to-nearest-even, as CPython).
    Only what date code does with such values: + - * / with floats/ints, comparisons (fork), int() (truncation)."""
    F = z3.Float64()

    def __init__(self, z):
        self.z = z

    @classmethod
    def lift(cls, x):
        if isinstance(x, SFloat):
            return x.z
        if isinstance(x, bool):
            x = int(x)
        if isinstance(x, (int, float)):
            return z3.FPVal(float(x), cls.F)
        if isinstance(x, SInt):
            return cls.from_int_term(x.z, 64)
        raise Unsupported("float operand %r" % (type(x),))

    @classmethod
    def from_int_term(cls, n, bits):
        """exact for |n| < 2**53 (callers bound n); bits: width of the two's-complement encoding used"""
        return z3.fpSignedToFP(z3.RNE(), z3.Int2BV(n, bits), cls.F)

    @classmethod
    def from_decimal(cls, n, k, ndigits):
        """the double nearest to n / 10**k, n a non-negative Int term of at most ndigits (<= 15) decimal digits: both
        operands are exactly representable, and IEEE division is correctly rounded, like CPython's float(str)"""
        if ndigits > 15:
            raise Unsupported("float() of more than 15 symbolic digits")
        bits = max(8, (10 ** ndigits).bit_length() + 2)
        x = cls.from_int_term(n, bits)
        if k:
            x = z3.fpDiv(z3.RNE(), x, z3.FPVal(float(10 ** k), cls.F))
        return cls(x)

    def _bin(self, o, op, swap=False):
        try:
            b = SFloat.lift(o)
        except Unsupported:
            return NotImplemented
        a = self.z
        if swap:
            a, b = b, a
        return SFloat(op(z3.RNE(), a, b))

    def __add__(self, o): return self._bin(o, z3.fpAdd)
    def __radd__(self, o): return self._bin(o, z3.fpAdd, True)
    def __sub__(self, o): return self._bin(o, z3.fpSub)
    def __rsub__(self, o): return self._bin(o, z3.fpSub, True)
    def __mul__(self, o): return self._bin(o, z3.fpMul)
    def __rmul__(self, o): return self._bin(o, z3.fpMul, True)

    def __truediv__(self, o):
        b = SFloat.lift(o)
        if branch(z3.fpIsZero(b)):
            raise ZeroDivisionError("float division by zero")
        return SFloat(z3.fpDiv(z3.RNE(), self.z, b))

    def __rtruediv__(self, o):
        if branch(z3.fpIsZero(self.z)):
            raise ZeroDivisionError("float division by zero")
        return SFloat(z3.fpDiv(z3.RNE(), SFloat.lift(o), self.z))

    def __neg__(self): return SFloat(z3.fpNeg(self.z))
    def __abs__(self): return SFloat(z3.fpAbs(self.z))
    def __pos__(self): return self

    def _cmp(self, o, op):
        return branch(op(self.z, SFloat.lift(o)))

    def __lt__(self, o): return self._cmp(o, z3.fpLT)
    def __le__(self, o): return self._cmp(o, z3.fpLEQ)
    def __gt__(self, o): return self._cmp(o, z3.fpGT)
    def __ge__(self, o): return self._cmp(o, z3.fpGEQ)
    def __eq__(self, o):
        try:
            return self._cmp(o, z3.fpEQ)
        except Unsupported:
            return False
    def __ne__(self, o): return not self.__eq__(o)
    __hash__ = None

    def __bool__(self):
        return not branch(z3.fpIsZero(self.z))

    def to_int(self):
        """int(x): truncation towards zero; values are assumed within ±2**62 (date code never goes near)"""
        lim = z3.FPVal(float(2 ** 62), SFloat.F)       # (excludes NaN and the infinities as well)
        add(z3.And(z3.fpLT(self.z, lim), z3.fpGT(self.z, z3.fpNeg(lim))))
        return mkint(z3.BV2Int(z3.fpToSBV(z3.RTZ(), self.z, z3.BitVecSort(64)), True))

    def __int__(self):
        raise Unsupported("int() of a symbolic float outside instrumented code")

    def __float__(self):
        raise Unsupported("float() realisation of a symbolic float")

    def __repr__(self):
        return "SFloat(%s)" % z3.simplify(self.z)


def mkint(z):
    if isinstance(z, int):
        return z
    z = z3.simplify(z)
    if z3.is_int_value(z):
        return z.as_long()
    return SInt(z)


class SInt:
    """symbolic Python int (z3 Int term).  Also stands for integer-valued floats (decimals are outside every claim)."""
    __slots__ = ("z",)

    def __init__(self, z):
        self.z = z

    def _bin(self, o, f):
        try:
            oz = _zi(o)
        except Unsupported:
            return NotImplemented
        return mkint(f(self.z, oz))

    def __add__(self, o): return self._bin(o, lambda a, b: a + b)
    def __radd__(self, o): return self._bin(o, lambda a, b: b + a)
    def __sub__(self, o): return self._bin(o, lambda a, b: a - b)
    def __rsub__(self, o): return self._bin(o, lambda a, b: b - a)
    def __neg__(self): return mkint(-self.z)
    def __pos__(self): return self

    def __mul__(self, o):
        if isinstance(o, SInt):
            raise Unsupported("symbolic * symbolic")
        return self._bin(o, lambda a, b: a * b)

    __rmul__ = __mul__

    def __floordiv__(self, o):
        if isinstance(o, int) and not isinstance(o, bool) and o > 0:
            return mkint(self.z / o)
        raise Unsupported("floordiv by non-constant")

    def __truediv__(self, o):
        raise Unsupported("true division of symbolic int (float)")

    def __mod__(self, o):
        if isinstance(o, int) and not isinstance(o, bool) and o > 0:
            return mkint(self.z % o)
        raise Unsupported("mod by non-constant")

    def __divmod__(self, o):
        return self // o, self % o

    def __abs__(self):
        return mkint(z3.If(self.z >= 0, self.z, -self.z))

    def __int__(self):
        raise Unsupported("int() builtin on symbolic int (uninstrumented caller)")

    def __float__(self):
        raise Unsupported("float() on symbolic int")

    def __round__(self, n=None):
        return self

    def __trunc__(self):
        return self

    def is_integer(self):
        return True

    def _cmp(self, o, f):
        try:
            oz = _zi(o)
        except Unsupported:
            return NotImplemented
        return mkbool(f(self.z, oz))

    def __lt__(self, o): return self._cmp(o, lambda a, b: a < b)
    def __le__(self, o): return self._cmp(o, lambda a, b: a <= b)
    def __gt__(self, o): return self._cmp(o, lambda a, b: a > b)
    def __ge__(self, o): return self._cmp(o, lambda a, b: a >= b)

    def __eq__(self, o):
        if o is None or isinstance(o, str):
            return False
        r = self._cmp(o, lambda a, b: a == b)
        return False if r is NotImplemented else r

    def __ne__(self, o):
        if o is None or isinstance(o, str):
            return True
        r = self._cmp(o, lambda a, b: a != b)
        return True if r is NotImplemented else r

    def __bool__(self):
        return branch(self.z != 0)

    def __hash__(self):
        raise Unsupported("hash of symbolic int")

    def __index__(self):
        return concretize(self, limit=64)

    def __repr__(self):
        return "SInt(%s)" % self.z

    def __format__(self, spec):
        raise Unsupported("format of symbolic int")


def concretize(x, limit=64):
    """fork-enumerate the feasible values of a symbolic int in increasing order (small domains only).  The minimum is
    found by descent from an arbitrary model value, so the sequence of branch conditions does not depend on which
    model the solver happens to return (replays must meet identical conditions)."""
    if not isinstance(x, SInt):
        return x
    lo_bound = None
    for _ in range(limit):
        c = CUR
        extra = [] if lo_bound is None else [x.z > lo_bound]
        if not c.check(*extra):
            raise Abort()
        v = c.model.eval(x.z, model_completion=True).as_long()
        for _ in range(200):
            if not c.check(x.z < v, *extra):
                break
            v = c.model.eval(x.z, model_completion=True).as_long()
        else:
            raise Unsupported("concretize: unbounded below")
        if branch(x.z == v):
            return v
        lo_bound = v
    raise Unsupported("concretize: domain larger than %d" % limit)


class SEnum:
    """finite-domain symbolic string-like value (e.g. a settings choice).  Equality is a z3 Bool; code that never
    inspects the value never forks."""

    def __init__(self, name, values, z=None):
        self.values = list(values)
        self.name = name
        self.z = z if z is not None else z3.Int(name)

    def constrain(self):
        add(self.z >= 0, self.z < len(self.values))

    def __eq__(self, o):
        if isinstance(o, SEnum):
            if o is self:
                return True
            raise Unsupported("SEnum == SEnum")
        if o in self.values:
            return mkbool(self.z == self.values.index(o))
        return False

    def __ne__(self, o):
        r = self.__eq__(o)
        return (not r) if isinstance(r, bool) else mkbool(z3.Not(r.z))

    def __hash__(self):
        return hash(self.concrete())

    def concrete(self):
        i = concretize(SInt(self.z), limit=len(self.values) + 1)
        return self.values[i]

    def lower(self):
        return self

    def __contains__(self, sub):
        # `"future" in settings.PREFER_DATES_FROM`
        hits = [i for i, v in enumerate(self.values) if sub in v]
        if not hits:
            return False
        if len(hits) == len(self.values):
            return True
        return branch(z3.Or(*[self.z == i for i in hits]))

    def __bool__(self):
        t = [i for i, v in enumerate(self.values) if v]
        if len(t) == len(self.values):
            return True
        if not t:
            return False
        return branch(z3.Or(*[self.z == i for i in t]))

    def __repr__(self):
        return "<%s>" % self.name

    def __str__(self):
        return "<%s>" % self.name

    def __getattr__(self, name):
        if name.startswith("__"):
            raise AttributeError(name)
        return getattr(self.concrete(), name)


# ---------------------------------------------------------------- explorer
class PathOutcome:
    """what a harness returns for one completed path"""

    def __init__(self, prop, witness=None, label=None, info=None, known=None):
        self.prop = prop          # z3 Bool / bool: obligation that must hold on this path
        self.witness = witness or {}   # name -> term: evaluated under a counter-model / witness model
        self.label = label        # path class label (for evidence)
        self.info = info or {}    # concrete extras forwarded to the replay builder
        self.known = known or []  # [(finding id, z3 cond)]: where a listed known finding would show on this path


class Result:
    def __init__(self):
        self.paths = 0
        self.completed = 0
        self.aborted = 0
        self.violations = []
        self.inconclusive = []
        self.checks = 0
        self.solver_s = 0.0
        self.wall = 0.0
        self.labels = {}
        self.samples = []
        self.capped = False
        self.forks = {}
        self.known_hits = []


def _eval_wit(model, wit):
    out = {}
    for k, v in wit.items():
        if isinstance(v, (SInt, SBool)):
            v = v.z
        if z3.is_expr(v):
            r = model.eval(v, model_completion=True)
            if z3.is_int_value(r):
                out[k] = r.as_long()
            elif z3.is_true(r) or z3.is_false(r):
                out[k] = z3.is_true(r)
            else:
                out[k] = str(r)
        else:
            out[k] = v
    return out


RESET_HOOKS = []


def _run_warmup(fn):
    """one throw-away execution so that lazily built caches of the analysed code (compiled patterns, dictionaries,
    locale data) are warm and every explored path sees the same environment; its decisions are discarded"""
    global CUR
    CUR = Ctx([])
    try:
        fn()
    except (Abort, Unsupported, Divergence, RecursionError):
        pass
    except Exception:
        pass
    CUR = None


def explore(fn, max_paths=100000, deadline=None, prefixes=None, want_samples=3, warmup=True):
    """fn() -> PathOutcome (or raises).  Every completed path: PC ∧ ¬prop must be unsat."""
    global CUR
    res = Result()
    t0 = _time.time()
    if warmup:
        for h in RESET_HOOKS:
            h()
        _run_warmup(fn)
    stack = [list(p) for p in (prefixes or [[]])]
    while stack:
        if res.paths >= max_paths or (deadline is not None and _time.time() > deadline):
            res.capped = True
            res.remaining = stack
            break
        prefix = stack.pop()
        for h in RESET_HOOKS:
            h()
        CUR = Ctx(prefix)
        out = None
        try:
            out = fn()
        except Abort:
            res.aborted += 1
        except Unsupported as e:
            res.inconclusive.append({"why": "unsupported: %s" % (str(e)[:300],), "depth": len(CUR.decisions),
                                     "witness": _inputs_witness()})
        except Divergence as e:
            res.inconclusive.append({"why": "engine-divergence: %s" % str(e)[:300], "depth": len(CUR.decisions),
                                     "witness": _inputs_witness()})
        except RecursionError:
            res.inconclusive.append({"why": "recursion limit", "depth": len(CUR.decisions), "witness": _inputs_witness()})
        except Exception as e:  # noqa: an exception of the analysed code escaped the harness: a failed obligation
            ins = dict(CUR.notes.get("inputs") or {})
            clk = CUR.notes.get("clock")
            if clk is not None:
                for f in ("year", "month", "day", "hour", "minute", "second", "microsecond"):
                    ins["clock_" + f] = getattr(clk, f)
            out = PathOutcome(False, ins, "raised:%s" % type(e).__name__, {"exception": "%s: %s" % (type(e).__name__, str(e)[:200])})
        stack.extend(CUR.pending)
        res.paths += 1
        if out is not None:
            try:
                prop = _zb(out.prop)
                # reachability witness: the path condition itself must be satisfiable
                if not CUR.check():
                    res.aborted += 1
                else:
                    wm = CUR.model
                    res.completed += 1
                    lab = out.label or "path"
                    res.labels[lab] = res.labels.get(lab, 0) + 1
                    if len(res.samples) < want_samples:
                        res.samples.append({"label": lab, "witness": _eval_wit(wm, out.witness)})
                    if CUR.check(z3.Not(prop)):
                        m = CUR.model
                        res.violations.append({"witness": _eval_wit(m, out.witness), "label": lab, "info": out.info})
                    for fid, kc in out.known:
                        if sum(1 for h in res.known_hits if h["id"] == fid) < 3 and CUR.check(_zb(kc)):
                            res.known_hits.append({"id": fid, "witness": _eval_wit(CUR.model, out.witness)})
            except Unsupported as e:
                res.inconclusive.append({"why": "obligation: %s" % (str(e)[:300],), "depth": len(CUR.decisions)})
        res.checks += CUR.nchecks
        res.solver_s += CUR.solver_s
        for k, v in CUR.forks.items():
            res.forks[k] = res.forks.get(k, 0) + v
    res.wall = _time.time() - t0
    CUR = None
    return res
