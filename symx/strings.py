"""Template strings: tuples of concrete 1-char strs and symbolic decimal digits (SChar), plus the helpers the AST
transform injects into the analysed modules (SX_*)."""
import re as _re
import unicodedata as _ud

import z3

from . import core
from .core import SInt, SBool, SEnum, Unsupported, branch, mkint, mkbool, _zi


class SChar:
    """one decimal digit with symbolic value 0..9 (z3 Int term) in a concrete script (base = code point of its zero)"""
    __slots__ = ("z", "base", "src", "conv")

    def __init__(self, z, base=48, src=None, conv=frozenset()):
        self.z = z
        self.base = base
        self.src = src   # (field term, index, width): this digit is digit `index` of a `width`-digit rendering of term
        # values already transliterated to ASCII by a glyph-by-glyph str.replace chain that is still in progress
        self.conv = conv

    def __repr__(self):
        return "<%s>" % self.z


def digit_base(c):
    """code point of the zero of the decimal-digit block c belongs to, or None"""
    if len(c) == 1 and _ud.category(c) == "Nd":
        return ord(c) - _ud.decimal(c)
    return None


class TStr:
    __slots__ = ("items",)

    def __init__(self, items):
        self.items = tuple(items)

    @staticmethod
    def field(val, width, base=48):
        """zero-padded decimal rendering of SInt/int `val` (caller guarantees 0 <= val < 10**width)"""
        z = _zi(val)
        out = []
        for i in range(width):
            v = z3.simplify((z / (10 ** (width - 1 - i))) % 10)
            out.append(chr(base + v.as_long()) if z3.is_int_value(v) else SChar(v, base, (z, i, width)))
        return TStr(out)

    @staticmethod
    def digits(names, base=48):
        """independent digit variables, one per name"""
        out = []
        for n in names:
            v = z3.Int(n)
            core.add(v >= 0, v <= 9)
            out.append(SChar(v, base))
        return TStr(out)

    def is_concrete(self):
        return all(isinstance(i, str) for i in self.items)

    def concrete(self):
        if not self.is_concrete():
            raise Unsupported("string with symbolic digits needed concretely: %r" % (self,))
        return "".join(self.items)

    def shape(self, digit="0"):
        return "".join(i if isinstance(i, str) else (digit if i.base == 48 or digit != "0" else chr(i.base)) for i in self.items)

    def __repr__(self):
        return "T'" + self.shape("#") + "'"

    def __str__(self):
        return self.shape("#")

    def __len__(self):
        return len(self.items)

    def __bool__(self):
        return bool(self.items)

    def __iter__(self):
        for i in self.items:
            yield wrap(TStr([i]))

    def __getitem__(self, k):
        if isinstance(k, slice):
            return wrap(TStr(self.items[k]))
        if isinstance(k, SInt):
            k = k.__index__()
        return wrap(TStr([self.items[k]]))

    def __add__(self, o):
        o = coerce(o)
        if o is None:
            return NotImplemented
        return wrap(TStr(self.items + o.items))

    def __radd__(self, o):
        o = coerce(o)
        if o is None:
            return NotImplemented
        return wrap(TStr(o.items + self.items))

    def __mul__(self, n):
        return wrap(TStr(self.items * n))

    __rmul__ = __mul__

    def __mod__(self, args):
        raise Unsupported("TStr %% args")

    def _eq_z(self, o):
        o = coerce(o)
        if o is None or len(o) != len(self):
            return False
        if any(isinstance(i, SChar) and i.conv for i in self.items + o.items):
            raise Unsupported("comparison of a partially transliterated digit")
        conds = []
        for a, b in zip(self.items, o.items):
            if isinstance(a, str) and isinstance(b, str):
                if a != b:
                    return False
            elif isinstance(a, SChar) and isinstance(b, SChar):
                if a.base != b.base:
                    return False
                conds.append(a.z == b.z)
            else:
                s, c = (a, b) if isinstance(a, SChar) else (b, a)
                if not (s.base <= ord(c) <= s.base + 9):
                    return False
                conds.append(s.z == ord(c) - s.base)
        if not conds:
            return True
        return z3.And(*conds)

    def __eq__(self, o):
        r = self._eq_z(o)
        return r if isinstance(r, bool) else mkbool(r)

    def __ne__(self, o):
        r = self._eq_z(o)
        return (not r) if isinstance(r, bool) else mkbool(z3.Not(r))

    def __lt__(self, o):
        raise Unsupported("ordering of symbolic strings")

    __gt__ = __le__ = __ge__ = __lt__

    def __hash__(self):
        if self.is_concrete():
            return hash("".join(self.items))
        raise Unsupported("hash of string with symbolic digits")

    # ---- str API subset
    def _map(self, f):
        out = []
        for i in self.items:
            if isinstance(i, str):
                r = f(i)
                if len(r) != 1:
                    out.extend(r)
                else:
                    out.append(r)
            else:
                out.append(i)
        return wrap(TStr(out))

    def lower(self): return self._map(str.lower)
    def upper(self): return self._map(str.upper)
    def casefold(self): return self._map(str.casefold)

    def title(self):
        return wrap(coerce_from_shape(self, self.shape("0").title()))

    def capitalize(self):
        return wrap(coerce_from_shape(self, self.shape("0").capitalize()))

    def _strip(self, chars, left, right):
        its = list(self.items)

        def is_ws(i):
            if isinstance(i, SChar):
                return False if chars is None else _schar_in(i, chars)
            return i.isspace() if chars is None else i in chars
        if left:
            while its and is_ws(its[0]):
                its.pop(0)
        if right:
            while its and is_ws(its[-1]):
                its.pop()
        return wrap(TStr(its))

    def strip(self, chars=None): return self._strip(chars, True, True)
    def lstrip(self, chars=None): return self._strip(chars, True, False)
    def rstrip(self, chars=None): return self._strip(chars, False, True)

    def isdigit(self):
        return bool(self.items) and all(isinstance(i, SChar) or i.isdigit() for i in self.items)

    def isdecimal(self):
        return bool(self.items) and all(isinstance(i, SChar) or i.isdecimal() for i in self.items)

    def isnumeric(self):
        return bool(self.items) and all(isinstance(i, SChar) or i.isnumeric() for i in self.items)

    def isalpha(self):
        return bool(self.items) and all(isinstance(i, str) and i.isalpha() for i in self.items)

    def isalnum(self):
        return bool(self.items) and all(isinstance(i, SChar) or i.isalnum() for i in self.items)

    def isspace(self):
        return bool(self.items) and all(isinstance(i, str) and i.isspace() for i in self.items)

    def isupper(self):
        return self.shape("0").isupper()

    def islower(self):
        return self.shape("0").islower()

    def find(self, sub, start=0, end=None):
        sub = coerce(sub)
        n = len(sub)
        stop = len(self) if end is None else min(end, len(self))
        for p in range(start, stop - n + 1):
            if TStr(self.items[p:p + n]) == sub:
                return p
        return -1

    def rfind(self, sub):
        sub = coerce(sub)
        n = len(sub)
        for p in range(len(self) - n, -1, -1):
            if TStr(self.items[p:p + n]) == sub:
                return p
        return -1

    def index(self, sub, start=0):
        p = self.find(sub, start)
        if p < 0:
            raise ValueError("substring not found")
        return p

    def __contains__(self, sub):
        return self.find(sub) >= 0

    def startswith(self, p, start=0):
        if isinstance(p, tuple):
            return any(self.startswith(q, start) for q in p)
        p = coerce(p)
        return len(p) <= len(self) - start and bool(TStr(self.items[start:start + len(p)]) == p)

    def endswith(self, p):
        if isinstance(p, tuple):
            return any(self.endswith(q) for q in p)
        p = coerce(p)
        return len(p) <= len(self) and bool(TStr(self.items[len(self) - len(p):]) == p)

    def replace(self, old, new, count=-1):
        old, new = coerce(old), coerce(new)
        # glyph-by-glyph transliteration of a digit script (e.g. ten calls '۳' -> '3'): a symbolic digit of that script
        # collects the converted values and becomes an ASCII digit once all ten have been applied (no case split)
        if len(old) == 1 and len(new) == 1 and isinstance(old.items[0], str) and isinstance(new.items[0], str) and count == -1:
            ob = digit_base(old.items[0])
            if ob is not None and ob != 48 and new.items[0].isascii() and new.items[0].isdigit() \
                    and int(new.items[0]) == ord(old.items[0]) - ob:
                k = int(new.items[0])
                items = []
                for it in self.items:
                    if isinstance(it, SChar) and it.base == ob:
                        cv = it.conv | {k}
                        items.append(SChar(it.z, 48, it.src) if len(cv) == 10 else SChar(it.z, it.base, it.src, cv))
                    elif it == old.items[0]:
                        items.append(new.items[0])
                    else:
                        items.append(it)
                return wrap(TStr(items))
        if any(isinstance(i, SChar) and i.conv for i in self.items):
            raise Unsupported("operation on a partially transliterated digit")
        out, i, n = [], 0, len(old)
        if n == 0:
            raise Unsupported("replace empty")
        while i < len(self.items):
            if count != 0 and i + n <= len(self.items) and TStr(self.items[i:i + n]) == old:
                out.extend(new.items)
                i += n
                count -= 1
            else:
                out.append(self.items[i])
                i += 1
        return wrap(TStr(out))

    def to_int(self):
        its = self.strip().items
        if its and isinstance(its[0], str) and its[0] in "+-" and len(its) > 1:
            sign, its = (-1 if its[0] == "-" else 1), its[1:]
        else:
            sign = 1
        if not its or not all(isinstance(i, SChar) or i.isdecimal() for i in its):
            raise ValueError("invalid literal for int() with base 10: %r" % (self.shape("#"),))
        acc = _whole_field(its)
        if acc is None:
            acc = z3.IntVal(0)
            for i in its:
                acc = acc * 10 + (i.z if isinstance(i, SChar) else _ud.decimal(i))
        r = mkint(acc if sign > 0 else -acc)
        if isinstance(r, SInt) and sign > 0:
            PROV[r.z.get_id()] = (r.z, tuple(its))
        return r

    def zfill(self, w):
        return wrap(TStr(("0",) * max(0, w - len(self.items)) + self.items))

    def split(self, sep=None, maxsplit=-1):
        if sep is not None:
            sep = coerce(sep)
            if not sep.is_concrete() or maxsplit != -1:
                raise Unsupported("split(symbolic sep / maxsplit)")
            out, cur, i, n = [], [], 0, len(sep)
            while i < len(self.items):
                if TStr(self.items[i:i + n]) == sep:
                    out.append(wrap(TStr(cur)))
                    cur = []
                    i += n
                else:
                    cur.append(self.items[i])
                    i += 1
            out.append(wrap(TStr(cur)))
            return out
        out, cur = [], []
        for i in self.items:
            if isinstance(i, str) and i.isspace():
                if cur:
                    out.append(wrap(TStr(cur)))
                    cur = []
            else:
                cur.append(i)
        if cur:
            out.append(wrap(TStr(cur)))
        return out

    def count(self, sub):
        n, p = 0, 0
        while True:
            p = self.find(sub, p)
            if p < 0:
                return n
            n += 1
            p += max(1, len(sub))

    def encode(self, *a, **k):
        raise Unsupported("encode of symbolic string")

    def format(self, *a, **k):
        raise Unsupported("format on symbolic string")

    def join(self, seq):
        return sx_join(self, seq)


def _whole_field(its):
    """if the items are exactly the full digit sequence of one rendered field, its value is the field's own term
    (avoids asking the solver to re-prove  sum digit_i * 10^i == value)"""
    first = its[0]
    if not isinstance(first, SChar) or first.src is None:
        return None
    term, idx, width = first.src
    if idx != 0 or len(its) != width:
        return None
    for k, i in enumerate(its):
        if not isinstance(i, SChar) or i.src is None or i.src[1] != k or i.src[2] != width or not i.src[0].eq(term):
            return None
    return term


def coerce_from_shape(t, shaped):
    """re-attach the symbolic digits of t to a same-length case-mapped shape string"""
    if len(shaped) != len(t.items):
        raise Unsupported("case mapping changed length")
    return TStr([c if isinstance(i, str) else i for c, i in zip(shaped, t.items)])


def _schar_in(sc, container):
    ds = {ord(c) - sc.base for c in container if isinstance(c, str) and len(c) == 1 and sc.base <= ord(c) <= sc.base + 9}
    if len(ds) == 10:
        return True
    if not ds:
        return False
    return branch(z3.Or(*[sc.z == k for k in sorted(ds)]))


def coerce(o):
    if isinstance(o, TStr):
        return o
    if isinstance(o, LazyIntStr):
        return o._force()
    if isinstance(o, str):
        return TStr(list(o))
    return None


def wrap(t):
    """return a plain str when fully concrete"""
    if isinstance(t, TStr) and t.is_concrete():
        return "".join(t.items)
    return t


def is_sym_str(x):
    return isinstance(x, (TStr, LazyIntStr))


# ------------------------------------------------------------ helpers injected by the AST transform
def _maybe_eq(t, k):
    """quick filter: can symbolic TStr t equal concrete str k?"""
    if not isinstance(k, str) or len(k) != len(t.items):
        return False
    for a, b in zip(t.items, k):
        if isinstance(a, str):
            if a != b:
                return False
        elif not (a.base <= ord(b) <= a.base + 9):
            return False
    return True


def sx_in(a, b):
    if isinstance(a, LazyIntStr):
        a = a._force()
    if isinstance(b, LazyIntStr):
        b = b._force()
    if isinstance(a, SEnum):
        if isinstance(b, (tuple, list, set, frozenset)) and all(v in b for v in a.values):
            return True
        if isinstance(b, (tuple, list, set, frozenset, dict)):
            hits = [i for i, v in enumerate(a.values) if v in b]
            if not hits:
                return False
            return branch(z3.Or(*[a.z == i for i in hits]))
    if isinstance(b, SEnum):
        return b.__contains__(a)
    if isinstance(a, TStr) and isinstance(b, (dict, set, frozenset)):
        for key in b:
            if _maybe_eq(a, key) and (a == key):
                return True
        return False
    if isinstance(b, SymSet):
        return b._has(a)
    if isinstance(b, TStr):
        if isinstance(a, (str, TStr)):
            return b.find(a) >= 0
        return False
    if isinstance(b, str) and isinstance(a, TStr):
        if len(a) == 1:
            return _schar_in(a.items[0], b) if isinstance(a.items[0], SChar) else (a.items[0] in b)
        return coerce(b).find(a) >= 0
    from . import dates as _dates
    if isinstance(a, _dates.SDateTime) and isinstance(b, (dict, set, frozenset, list, tuple)):
        for key in b:
            if isinstance(key, _dates.SDateTime) and (a == key):
                return True
        return False
    if isinstance(a, SInt) and isinstance(b, (set, frozenset, dict)):
        for key in b:
            if isinstance(key, int) and (a == key):
                return True
        return False
    return a in b


def sx_getitem(c, k):
    if isinstance(k, LazyIntStr):
        k = k._force()
    if isinstance(k, TStr) and isinstance(c, dict):
        for key in c:
            if _maybe_eq(k, key) and (k == key):
                return c[key]
        raise KeyError(k)
    return c.__getitem__(k)


def sx_dcontains(k, c):
    if is_sym_str(k):
        return sx_in(k, c)
    return c.__contains__(k)


def sx_float(x=0.0):
    if isinstance(x, LazyIntStr):
        x = x._force()
    if isinstance(x, TStr):
        if x.isdecimal():
            return x.to_int()      # integer-valued float modelled exactly as an integer
        its = x.strip().items
        neg = False
        if its and isinstance(its[0], str) and its[0] in "+-":
            neg, its = its[0] == "-", its[1:]
        dots = [i for i, c in enumerate(its) if isinstance(c, str) and c == "."]
        digs = [c for c in its if not (isinstance(c, str) and c == ".")]
        if len(dots) == 1 and digs and all(isinstance(c, SChar) or (isinstance(c, str) and c in "0123456789") for c in digs):
            # <digits>.<digits> (ASCII): the nearest double to the written decimal, as an IEEE term
            if any(isinstance(c, SChar) and c.base != 48 for c in digs):
                raise Unsupported("float() of non-ASCII symbolic digits")
            acc = z3.IntVal(0)
            for c in digs:
                acc = acc * 10 + (c.z if isinstance(c, SChar) else int(c))
            f = core.SFloat.from_decimal(acc, len(its) - 1 - dots[0], len(digs))
            return -f if neg else f
        raise Unsupported("float() of non-numeric symbolic text")
    if isinstance(x, SInt):
        return x
    if isinstance(x, core.SFloat):
        return x
    return float(x)


def _render(a, conv):
    if isinstance(a, (TStr, str)):
        return a
    if isinstance(a, LazyIntStr):
        return a._force()
    if isinstance(a, SInt):
        return sx_str(a)
    if isinstance(a, SEnum):
        return str(a)
    return (repr(a) if conv == "r" else str(a))


def sx_mod(fmt, args):
    if not isinstance(args, tuple):
        args = (args,)
    if not any(isinstance(a, (TStr, SInt, LazyIntStr)) for a in args):
        return fmt % args
    parts = _re.split(r"(%[sdr])", fmt)
    if "%" in "".join(p for p in parts if p not in ("%s", "%r", "%d")).replace("%%", ""):
        raise Unsupported("format spec in %r" % fmt)
    out = TStr([])
    it = iter(args)
    for p in parts:
        if p in ("%s", "%r", "%d"):
            a = next(it)
            try:
                r = _render(a, p[1])
            except Unsupported:
                r = "<%s>" % (a.z if isinstance(a, SInt) else "?")   # only reached for messages
            out = coerce(out + r)
        else:
            out = coerce(out + p.replace("%%", "%"))
    return wrap(out)


def sx_format(fmt, *args, **kwargs):
    if not any(isinstance(a, (TStr, SInt, LazyIntStr)) for a in list(args) + list(kwargs.values())):
        return fmt.format(*args, **kwargs)
    parts = _re.split(r"(\{\w*\})", fmt)
    out = TStr([])
    pos = 0
    for p in parts:
        if _re.fullmatch(r"\{\w*\}", p):
            key = p[1:-1]
            if key == "":
                a = args[pos]
                pos += 1
            elif key.isdigit():
                a = args[int(key)]
            else:
                a = kwargs[key]
            try:
                r = _render(a, "s")
            except Unsupported:
                r = "<?>"
            out = coerce(out + r)
        else:
            if "{" in p.replace("{{", "") or "}" in p.replace("}}", ""):
                raise Unsupported("format spec in %r" % fmt)
            out = coerce(out + p.replace("{{", "{").replace("}}", "}"))
    return wrap(out)


def sx_join(sep, seq):
    seq = list(seq)
    if not any(is_sym_str(s) for s in seq) and not is_sym_str(sep):
        return sep.join(seq)
    out = TStr([])
    for i, s in enumerate(seq):
        if i:
            out = coerce(out + sep)
        out = coerce(out + s)
    return wrap(out)


_builtin_int, _builtin_isinstance, _builtin_str = int, isinstance, str


def sx_int(x=0, *a):
    if isinstance(x, LazyIntStr):
        x = x._force()
    if isinstance(x, TStr):
        if a:
            raise Unsupported("int(symbolic, base)")
        return x.to_int()
    if isinstance(x, SInt):
        return x
    if isinstance(x, core.SFloat):
        return x.to_int()
    return _builtin_int(x, *a)


def sx_isinstance(o, cls):
    if cls is str or (_builtin_isinstance(cls, tuple) and str in cls):
        if _builtin_isinstance(o, (TStr, LazyIntStr, SEnum)):
            return True
    if (cls is int or cls is float or (_builtin_isinstance(cls, tuple) and (int in cls or float in cls))) \
            and _builtin_isinstance(o, SInt):
        return True
    if (cls is float or (_builtin_isinstance(cls, tuple) and float in cls)) and _builtin_isinstance(o, core.SFloat):
        return True
    # module-level names such as `datetime`/`timedelta` are rebound to the proxies; real instances (table constants such
    # as the tz offsets) must still satisfy the checks they satisfied before the rebinding
    import datetime as _rdt
    from . import dates as _dates
    cl = cls if _builtin_isinstance(cls, tuple) else (cls,)
    if _dates.STimedelta in cl and _builtin_isinstance(o, _rdt.timedelta):
        return True
    if _dates.SDateTime in cl and _builtin_isinstance(o, _rdt.datetime):
        return True
    if _dates.STime in cl and _builtin_isinstance(o, _rdt.time):
        return True
    return _builtin_isinstance(o, cls)


def sx_len(o):
    return len(o)


def sx_min(*a, **k):
    xs = list(a[0]) if len(a) == 1 else list(a)
    if k or not any(isinstance(x, SInt) for x in xs):
        return min(*a, **k)
    cur = xs[0]
    for x in xs[1:]:
        cur = mkint(z3.If(_zi(x) < _zi(cur), _zi(x), _zi(cur)))
    return cur


def sx_max(*a, **k):
    xs = list(a[0]) if len(a) == 1 else list(a)
    if k or not any(isinstance(x, SInt) for x in xs):
        return max(*a, **k)
    cur = xs[0]
    for x in xs[1:]:
        cur = mkint(z3.If(_zi(x) > _zi(cur), _zi(x), _zi(cur)))
    return cur


def sx_abs(x):
    return abs(x)


PROV = {}
core.RESET_HOOKS.append(PROV.clear)


class LazyIntStr:
    """str(int(<digit run>)) kept unevaluated: `.zfill(n)` with n >= the run's width needs no leading-zero case split
    (str(int(ds)).zfill(n) == ds.zfill(n), rendered in ASCII); anything else forces the split."""

    def __init__(self, items):
        self._items = tuple(SChar(i.z, 48, i.src) if isinstance(i, SChar) else chr(48 + _ud.decimal(i)) for i in items)
        self._forced = None

    def zfill(self, n):
        if n >= len(self._items):
            return wrap(TStr(("0",) * (n - len(self._items)) + self._items))
        return self._force().zfill(n)

    def _force(self):
        if self._forced is None:
            its = list(self._items)
            while len(its) > 1:
                lead = its[0]
                if isinstance(lead, str):
                    if lead != "0":
                        break
                elif not branch(lead.z == 0):
                    break
                its.pop(0)
            self._forced = coerce(wrap(TStr(its)))
        return self._forced

    def __getattr__(self, name):
        if name.startswith("__"):
            raise AttributeError(name)
        return getattr(self._force(), name)

    def __len__(self): return len(self._force())
    def __iter__(self): return iter(self._force())
    def __eq__(self, o): return self._force() == o
    def __ne__(self, o): return self._force() != o
    def __add__(self, o): return self._force() + o
    def __radd__(self, o): return o + self._force()
    def __getitem__(self, k): return self._force()[k]
    def __hash__(self): return hash(self._force())
    def __str__(self): return str(self._force())
    def __bool__(self): return True


def sx_str(o=""):
    if isinstance(o, (TStr, LazyIntStr)):
        return o
    if isinstance(o, SInt):
        ent = PROV.get(o.z.get_id())
        if ent is not None and ent[0].eq(o.z):
            return LazyIntStr(ent[1])
        return _dec_str(o)
    return _builtin_str(o)


def _dec_str(x):
    """decimal rendering of a symbolic int without digit provenance: fork on sign and on the number of digits
    (at most 8 digits), then the digits are (x div 10^k) mod 10"""
    neg = branch(x.z < 0)
    a = -x.z if neg else x.z
    n = None
    for k in range(1, 9):
        if branch(a < 10 ** k):
            n = k
            break
    if n is None:
        raise Unsupported("str() of a symbolic int with more than 8 digits")
    t = TStr.field(SInt(z3.simplify(a)), n)
    return coerce(wrap(coerce("-") + t)) if neg else t


def sx_bool(x=False):
    return bool(x)


class SStringIO:
    def __init__(self, s=""):
        self.s, self.p = s, 0

    def read(self, n=-1):
        if n is None or n < 0:
            n = len(self.s) - self.p
        r = self.s[self.p:self.p + n]
        self.p += len(r)
        return r


class SymUnicodedata:
    """facade: decimal digits are normalisation-inert starters under NFKD/NFKC only for ASCII; for other scripts the
    compatibility forms may map to ASCII (e.g. full-width digits), which is applied to the SChar's script."""

    def normalize(self, form, s):
        if isinstance(s, LazyIntStr):
            s = s._force()
        if isinstance(s, str):
            return _ud.normalize(form, s)
        out, run = [], []
        for i in s.items:
            if isinstance(i, str):
                run.append(i)
            else:
                out.extend(_ud.normalize(form, "".join(run)))
                run = []
                z0 = _ud.normalize(form, chr(i.base))
                if len(z0) != 1 or any(_ud.normalize(form, chr(i.base + k)) != chr(ord(z0) + k) for k in range(10)):
                    raise Unsupported("digit block U+%04X not uniform under %s" % (i.base, form))
                if _ud.combining(z0) != 0:
                    raise Unsupported("combining digit")
                out.append(SChar(i.z, ord(z0), i.src))
        out.extend(_ud.normalize(form, "".join(run)))
        return wrap(TStr(out))

    def category(self, c):
        if isinstance(c, TStr):
            if len(c.items) == 1 and isinstance(c.items[0], SChar):
                return "Nd"
            raise Unsupported("category of multi-char")
        return _ud.category(c)

    def __getattr__(self, name):
        return getattr(_ud, name)


SET_ORDER_FORK = [False]      # True (set by a harness): the iteration order of a set of strings is nondeterministic


def _set_order(xs):
    """iteration order of a set: CPython's depends on the interpreter's hash seed for str elements.  When a harness asks for
    it, the order becomes a decision of the path (insertion order or its reverse: two of the n! orders, stated bound)."""
    if SET_ORDER_FORK[0] and len(xs) >= 2 and all(isinstance(x, (str, TStr)) for x in xs):
        if branch(core.fresh_bool("set_order_reversed")):
            core.CUR.notes.setdefault("set_orders", []).append("reversed")
            return list(reversed(xs))
        core.CUR.notes.setdefault("set_orders", []).append("insertion")
    return list(xs)


core.RESET_HOOKS.append(lambda: SET_ORDER_FORK.__setitem__(0, False))


class SymSet:
    """eq-based (list-backed) set used when an element is a string with symbolic digits.
    Lazy: duplicates are only removed when len()/iteration is observed (emptiness and membership do not need it)."""

    def __init__(self, it=()):
        self.xs = list(it)
        self._dedup = False

    def add(self, x):
        self.xs.append(x)
        self._dedup = False

    def _norm(self):
        if not self._dedup:
            out = []
            for x in self.xs:
                if not any(x == y for y in out):
                    out.append(x)
            self.xs, self._dedup = out, True

    def _has(self, x):
        for y in self.xs:
            if x == y:
                return True
        return False

    __contains__ = _has

    def __iter__(self):
        self._norm()
        return iter(_set_order(self.xs))

    def __len__(self):
        self._norm()
        return len(self.xs)

    def __bool__(self):
        return bool(self.xs)

    def __sub__(self, o):
        o = o if isinstance(o, SymSet) else SymSet(o)
        return SymSet(x for x in self.xs if not o._has(x))

    def __rsub__(self, o):
        return SymSet(x for x in o if not self._has(x))

    def __and__(self, o):
        o = o if isinstance(o, SymSet) else SymSet(o)
        return SymSet(x for x in self.xs if o._has(x))

    def __or__(self, o):
        return SymSet(list(self.xs) + list(o))

    __ror__ = __or__

    def isdisjoint(self, o):
        return not (self & o)


class sx_set_type:
    """stands for the builtin `set` inside pytz.tzinfo: eq-based for proxy elements (aware datetimes compare by instant)"""

    def __new__(cls, it=()):
        it = list(it)
        from . import dates as _d
        if any(isinstance(x, (_d.SDateTime, TStr)) for x in it):
            return SymSet(it)
        return _PromotingSet(it)


class _PromotingSet(set):
    """a real set that turns into an eq-based SymSet as soon as a proxy is added"""

    def add(self, x):
        from . import dates as _d
        if isinstance(x, (_d.SDateTime, TStr)):
            if not hasattr(self, "_sym"):
                self._sym = SymSet(list(self))
            self._sym.add(x)
        elif hasattr(self, "_sym"):
            self._sym.add(x)
        else:
            set.add(self, x)

    def _s(self):
        return getattr(self, "_sym", None)

    def __len__(self):
        return len(self._s()) if self._s() is not None else set.__len__(self)

    def __iter__(self):
        if self._s() is not None:
            return iter(self._s())
        if SET_ORDER_FORK[0]:
            if not hasattr(self, "_ins"):
                self._ins = list(set.__iter__(self))
            return iter(_set_order([x for x in self._ins if set.__contains__(self, x)] +
                                   [x for x in set.__iter__(self) if x not in self._ins]))
        return set.__iter__(self)

    def pop(self):
        if self._s() is not None:
            self._s()._norm()
            return self._s().xs.pop()
        return set.pop(self)


def sx_set(it=()):
    it = list(it)
    if any(isinstance(x, LazyIntStr) for x in it):
        it = [x._force() if isinstance(x, LazyIntStr) else x for x in it]
    if any(isinstance(x, TStr) and not x.is_concrete() for x in it):
        return SymSet(it)
    from . import dates as _d
    if any(isinstance(x, _d.SDateTime) for x in it):
        return SymSet(it)
    r = _PromotingSet(it)
    if SET_ORDER_FORK[0]:
        seen = []
        for x in it:                      # insertion order (a real set forgets it)
            if x not in seen:
                seen.append(x)
        r._ins = seen
    return r
