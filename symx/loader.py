"""Loading = encoding.  Re-imports dateparser.* (from the repository working tree), the stdlib `_strptime` (which
dateparser clones in utils/strptime.py) and dateutil.relativedelta FROM SOURCE through an AST transform that only makes
C-level string/number operations interceptable (it never changes logic), then rebinds environment names (datetime,
calendar, re/regex, StringIO, unicodedata, get_localzone) in the real module objects.

The repository path is taken from $VERIF_REPO (default /repo), so the same machinery can be pointed at a scratch copy.
"""
import ast
import importlib.abc
import importlib.machinery
import importlib.util
import os
import sys

from . import core, dates, strings, sre

REPO = os.environ.get("VERIF_REPO", "/repo")
INSTRUMENTED = []
REBOUND = {}
_PROXY_NAMES = ("TStr", "SInt", "SBool", "SChar", "SDateTime", "STimedelta", "STime", "LazyIntStr", "SymSet", "SEnum",
                "SPattern", "SMatch", "DeferredMatch", "SStringIO", "_SymCalendar", "SymRe")


def sx_guard():
    """first statement of every `except` body in instrumented modules: an exception caused by a proxy object reaching
    an un-modelled operation must not be swallowed as if the analysed code had raised it"""
    et, ev, tb = sys.exc_info()
    if et is None:
        return
    if issubclass(et, (AttributeError, TypeError, NotImplementedError)):
        msg = str(ev)
        if any(n in msg for n in _PROXY_NAMES):
            raise core.Unsupported("proxy reached un-modelled operation: %s: %s" % (et.__name__, msg[:200]))


class _T(ast.NodeTransformer):
    def visit_Compare(self, node):
        self.generic_visit(node)
        if len(node.ops) == 1 and isinstance(node.ops[0], (ast.In, ast.NotIn)):
            call = ast.Call(ast.Name("SX_in", ast.Load()), [node.left, node.comparators[0]], [])
            if isinstance(node.ops[0], ast.NotIn):
                call = ast.UnaryOp(ast.Not(), call)
            return ast.copy_location(call, node)
        return node

    def visit_BinOp(self, node):
        self.generic_visit(node)
        if isinstance(node.op, ast.Mod) and isinstance(node.left, ast.Constant) and isinstance(node.left.value, str):
            return ast.copy_location(ast.Call(ast.Name("SX_mod", ast.Load()), [node.left, node.right], []), node)
        return node

    def visit_Call(self, node):
        self.generic_visit(node)
        f = node.func
        if isinstance(f, ast.Attribute) and f.attr == "join" and len(node.args) == 1 and not node.keywords:
            return ast.copy_location(ast.Call(ast.Name("SX_joinm", ast.Load()), [f.value, node.args[0]], []), node)
        if isinstance(f, ast.Attribute) and f.attr == "format" and isinstance(f.value, ast.Constant) \
                and isinstance(f.value.value, str):
            return ast.copy_location(ast.Call(ast.Name("SX_format", ast.Load()), [f.value] + node.args, node.keywords), node)
        if isinstance(f, ast.Attribute) and f.attr == "__contains__" and len(node.args) == 1:
            return ast.copy_location(ast.Call(ast.Name("SX_dcontains", ast.Load()), [node.args[0], f.value], []), node)
        if isinstance(f, ast.Attribute) and f.attr == "__getitem__" and len(node.args) == 1:
            return ast.copy_location(ast.Call(ast.Name("SX_getitem", ast.Load()), [f.value, node.args[0]], []), node)
        if isinstance(f, ast.Name) and f.id in ("int", "str", "isinstance", "float", "set", "min", "max") \
                and not node.keywords:
            return ast.copy_location(ast.Call(ast.Name("SX_" + f.id, ast.Load()), node.args, []), node)
        return node

    def visit_ExceptHandler(self, node):
        self.generic_visit(node)
        guard = ast.Expr(ast.Call(ast.Name("SX_guard", ast.Load()), [], []))
        node.body.insert(0, ast.copy_location(guard, node))
        return node


def _sx_joinm(recv, arg):
    if isinstance(recv, (str, strings.TStr)):
        return strings.sx_join(recv, arg)
    return recv.join(arg)


HELPERS = {
    "SX_in": strings.sx_in, "SX_mod": strings.sx_mod, "SX_joinm": _sx_joinm, "SX_format": strings.sx_format,
    "SX_int": strings.sx_int, "SX_str": strings.sx_str, "SX_isinstance": strings.sx_isinstance,
    "SX_getitem": strings.sx_getitem, "SX_set": strings.sx_set, "SX_dcontains": strings.sx_dcontains,
    "SX_float": strings.sx_float, "SX_min": strings.sx_min, "SX_max": strings.sx_max, "SX_guard": sx_guard,
}


class _Loader(importlib.machinery.SourceFileLoader):
    def source_to_code(self, data, path, *, _optimize=-1):
        tree = ast.parse(data, path)
        tree = ast.fix_missing_locations(_T().visit(tree))
        return compile(tree, path, "exec", dont_inherit=True, optimize=_optimize)

    def exec_module(self, module):
        module.__dict__.update(HELPERS)
        INSTRUMENTED.append(module.__name__)
        super().exec_module(module)

    def get_code(self, fullname):  # never use cached bytecode: the encoding is regenerated from source on every run
        path = self.get_filename(fullname)
        return self.source_to_code(self.get_data(path), path)


def _wanted(name):
    if name in ("_strptime", "dateutil.relativedelta", "dateparser", "pytz.tzinfo"):
        return True
    if name.startswith("dateparser.") and not name.startswith("dateparser.data"):
        return True
    return False


class _Finder(importlib.abc.MetaPathFinder):
    def find_spec(self, name, path, target=None):
        if name == "dateparser" or name.startswith("dateparser.") or name.startswith("dateparser_data"):
            # always resolve the repository's packages from REPO, whatever is installed
            search = [REPO] if "." not in name else path
            spec = importlib.machinery.PathFinder.find_spec(name, search)
        elif name in ("_strptime", "dateutil.relativedelta", "pytz.tzinfo"):
            spec = importlib.machinery.PathFinder.find_spec(name, path)
        else:
            return None
        if spec is None or not _wanted(name) or not isinstance(spec.loader, importlib.machinery.SourceFileLoader):
            return spec
        spec.loader = _Loader(spec.loader.name, spec.loader.path)
        return spec


_INSTALLED = {}


def _rebind_module(mod, sre_regex, sre_re):
    import datetime as _dt
    import calendar as _cal
    import io
    import re
    import unicodedata
    import regex
    done = []
    for k, v in list(vars(mod).items()):
        if k.startswith("SX_"):
            continue
        new = None
        if isinstance(v, regex.Pattern):
            new = sre_regex.compile(v)
        elif isinstance(v, re.Pattern):
            new = sre_re.compile(v)
        elif v is regex:
            new = sre_regex
        elif v is re:
            new = sre_re
        elif v is _dt.datetime or v is _dt.date:
            new = dates.SDateTime
        elif v is _dt.timedelta:
            new = dates.STimedelta
        elif v is _dt.time:
            new = dates.STime
        elif v is _cal:
            new = dates.symcalendar
        elif v is io.StringIO:
            new = strings.SStringIO
        elif v is unicodedata:
            new = strings.SymUnicodedata()
        elif k == "get_localzone" and callable(v):
            new = _stub_localzone
        if new is not None:
            setattr(mod, k, new)
            done.append(k)
    if done:
        REBOUND[mod.__name__] = sorted(done)


def _stub_localzone():
    from . import dates
    return dates.LOCAL[0] if dates.LOCAL[0] is not None else _LOCAL


class _LocalUTC:
    """process-local zone stub: UTC, without pytz's `localize` (tzlocal returns zoneinfo objects)"""
    import datetime as _dt

    def utcoffset(self, dt):
        import datetime
        return datetime.timedelta(0)

    def dst(self, dt):
        import datetime
        return datetime.timedelta(0)

    def tzname(self, dt):
        return "UTC"

    def __repr__(self):
        return "<local:UTC>"


_LOCAL = _LocalUTC()


def install(extra_modules=()):
    """returns a namespace of the instrumented, re-bound modules"""
    if _INSTALLED:
        return _INSTALLED["ns"]
    sys.dont_write_bytecode = True
    # pytz is re-imported as a whole so that the zone classes it builds derive from the instrumented pytz.tzinfo classes
    # (DstTzInfo.localize / normalize / fromutc / utcoffset are then executed symbolically: real code, no model)
    for m in [m for m in sys.modules if m == "_strptime" or m.split(".")[0] in ("dateparser", "dateparser_data", "pytz")
              or m == "dateutil.relativedelta" or m in ("strptime_patched", "calendar_patched")]:
        del sys.modules[m]
    sys.meta_path.insert(0, _Finder())
    import re
    import regex
    import math
    import types
    import dateparser
    import dateparser.conf as CONF
    import dateparser.date as D
    import dateparser.date_parser as DP
    import dateparser.freshness_date_parser as F
    import dateparser.languages.dictionary as LD
    import dateparser.languages.loader as LO
    import dateparser.languages.locale as LL
    import dateparser.parser as P
    import dateparser.timezone_parser as TZ
    import dateparser.utils as U
    import dateparser.utils.strptime as US
    import dateparser.search.search as SS
    import dateparser.search as SE
    import dateparser.calendars as CA
    import dateparser.calendars.jalali_parser as JP
    import dateparser.calendars.hijri_parser as HP
    import dateparser.calendars.jalali as JA
    import dateparser.calendars.hijri as HI
    assert os.path.realpath(dateparser.__file__).startswith(os.path.realpath(REPO) + os.sep), dateparser.__file__
    sre_regex = sre.SymRe(regex)
    sre_re = sre.SymRe(re)
    for _n, info in TZ._tz_offsets:
        info["regex"] = sre_regex.compile(info["regex"])
    mods = [dateparser, CONF, D, DP, F, LD, LO, LL, P, TZ, U, US, SS, SE, CA, JP, HP, JA, HI]
    for mod in mods:
        _rebind_module(mod, sre_regex, sre_re)
    import pytz.tzinfo as PT
    PT.bisect_right = dates.sx_bisect_right
    PT.set = strings.sx_set_type
    REBOUND["pytz.tzinfo"] = ["bisect_right", "set"]
    import dateutil.relativedelta as RD

    def _copysign(a, x):
        if isinstance(x, core.SInt):
            return a if (x >= 0) else -a
        return math.copysign(a, x)
    RD.copysign = _copysign
    RD.calendar = dates.symcalendar
    RD.datetime = types.SimpleNamespace(date=dates.SDateTime, datetime=dates.SDateTime, timedelta=dates.STimedelta)
    RD.integer_types = tuple(RD.integer_types) + (core.SInt,)
    REBOUND["dateutil.relativedelta"] = ["copysign", "calendar", "datetime", "integer_types"]
    import _strptime as SP0
    for sp in (SP0, sys.modules["strptime_patched"]):
        sp.re_compile = sre_re.compile
        sp.datetime_date = dates.SDateTime
        sp._regex_cache.clear()
    REBOUND["_strptime"] = ["re_compile", "datetime_date"]
    ns = types.SimpleNamespace(dateparser=dateparser, CONF=CONF, D=D, DP=DP, F=F, LD=LD, LO=LO, LL=LL, P=P, TZ=TZ, U=U,
                               US=US, SS=SS, SE=SE, CA=CA, JP=JP, HP=HP, RD=RD, PT=PT, sre_regex=sre_regex, sre_re=sre_re)
    _INSTALLED["ns"] = ns
    return ns
