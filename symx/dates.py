"""Relational Gregorian date theory over z3 integers: proxies for datetime / timedelta / time / calendar.

An instant is the pair (proleptic day ordinal, µs-of-day); a timedelta the normalised pair (days, µs-of-day).
Carries between the components are ITE terms; a composite term is never divided by 86 400 000 000.
Aggregates (ordinal, µs-of-day) of computed values are remembered next to the decomposed fields.
"""
import datetime as _rdt

import z3

from . import core
from .core import SInt, SBool, Unsupported, branch, mkint, mkbool, S_and, _zi, fresh_int, add

K_DAY = 86400000000
MAXORD = 3652059
EPOCH_ORD = 719163  # ordinal of 1970-01-01


def z_isleap(y):
    return z3.And(y % 4 == 0, z3.Or(y % 100 != 0, y % 400 == 0))


def z_dim(y, m):
    return z3.If(m == 2, z3.If(z_isleap(y), 29, 28),
                 z3.If(z3.Or(m == 4, m == 6, m == 9, m == 11), 30, 31))


_DBM = [0, 31, 59, 90, 120, 151, 181, 212, 243, 273, 304, 334]


def z_dbm(y, m):
    e = z3.IntVal(_DBM[11])
    for i in range(10, -1, -1):
        e = z3.If(m == i + 1, _DBM[i], e)
    return e + z3.If(z3.And(m > 2, z_isleap(y)), 1, 0)


def z_dby(y):
    y1 = y - 1
    return y1 * 365 + y1 / 4 - y1 / 100 + y1 / 400


_ORD = z3.Function("ORD", z3.IntSort(), z3.IntSort(), z3.IntSort(), z3.IntSort())
USE_ORD_FUNCTION = True


def z_ord_expr(y, m, d):
    return z_dby(y) + z_dbm(y, m) + d


def z_ord(y, m, d):
    """proleptic ordinal.  Represented as an application of the function symbol ORD whose definition is asserted for
    every application that is built: equal arguments then give equal ordinals by congruence, without the solver having
    to re-derive it through the div/mod arithmetic of the leap-year rule."""
    c = core.CUR
    if not USE_ORD_FUNCTION or c is None:
        return z_ord_expr(y, m, d)
    y, m, d = [z3.IntVal(v) if isinstance(v, int) else z3.simplify(v) for v in (y, m, d)]
    if z3.is_int_value(y) and z3.is_int_value(m) and z3.is_int_value(d):
        return z3.simplify(z_ord_expr(y, m, d))
    app = _ORD(y, m, d)
    seen = c.notes.setdefault("ord_defs", set())
    k = app.get_id()
    if k not in seen:
        seen.add(k)
        c.notes.setdefault("ord_keep", []).append(app)
        core.add(app == z_ord_expr(y, m, d))
    return app


def z_tod(H, M, S, us):
    return ((H * 60 + M) * 60 + S) * 1000000 + us


def z_valid_date(y, m, d):
    return z3.And(y >= 1, y <= 9999, m >= 1, m <= 12, d >= 1, d <= z_dim(y, m))


def z_lex_lt(a, b, c, d):
    """(a,b) < (c,d)"""
    return z3.Or(a < c, z3.And(a == c, b < d))


def z_lex_le(a, b, c, d):
    return z3.Or(a < c, z3.And(a == c, b <= d))


# ------------------------------------------------------------------------------------------------ timedelta
class STimedelta:
    """normalised pair (days term, µs-of-day term in [0, K_DAY))"""
    resolution = _rdt.timedelta.resolution

    def __init__(self, days=0, seconds=0, microseconds=0, milliseconds=0, minutes=0, hours=0, weeks=0):
        sub = (_zi(seconds) + 60 * _zi(minutes) + 3600 * _zi(hours)) * 1000000 + _zi(microseconds) + 1000 * _zi(milliseconds)
        sub = z3.simplify(sub)
        d = z3.simplify(_zi(days) + 7 * _zi(weeks))
        if z3.is_int_value(sub):
            v = sub.as_long()
            self._d = z3.simplify(d + v // K_DAY)
            self._r = z3.IntVal(v % K_DAY)
        else:
            self._d = z3.simplify(d + sub / K_DAY)
            self._r = z3.simplify(sub % K_DAY)

    @classmethod
    def from_pair(cls, d, r):
        o = cls.__new__(cls)
        o._d, o._r = z3.simplify(d), z3.simplify(r)
        return o

    @property
    def days(self): return mkint(self._d)

    @property
    def seconds(self): return mkint(self._r / 1000000)

    @property
    def microseconds(self): return mkint(self._r % 1000000)

    def total_seconds(self):
        raise Unsupported("float total_seconds")

    def __neg__(self):
        z = self._r == 0
        return STimedelta.from_pair(z3.If(z, -self._d, -self._d - 1), z3.If(z, 0, K_DAY - self._r))

    def __add__(self, o):
        if isinstance(o, (STimedelta, _rdt.timedelta)):
            od, orr = _td_pair(o)
            t = self._r + orr
            c = z3.If(t >= K_DAY, 1, 0)
            return STimedelta.from_pair(self._d + od + c, t - c * K_DAY)
        return NotImplemented

    __radd__ = __add__

    def __sub__(self, o):
        if isinstance(o, (STimedelta, _rdt.timedelta)):
            return self + (-(_as_std(o)))
        return NotImplemented

    def __rsub__(self, o):
        if isinstance(o, (STimedelta, _rdt.timedelta)):
            return _as_std(o) + (-self)
        return NotImplemented

    def __bool__(self):
        return branch(z3.Or(self._d != 0, self._r != 0))

    def _key(self, o):
        od, orr = _td_pair(o)
        return (self._d, self._r, od, orr)

    def __eq__(self, o):
        if not isinstance(o, (STimedelta, _rdt.timedelta)):
            return False
        a, b, c, d = self._key(o)
        return mkbool(z3.And(a == c, b == d))

    def __ne__(self, o):
        if not isinstance(o, (STimedelta, _rdt.timedelta)):
            return True
        a, b, c, d = self._key(o)
        return mkbool(z3.Not(z3.And(a == c, b == d)))

    def __lt__(self, o): a, b, c, d = self._key(o); return mkbool(z_lex_lt(a, b, c, d))
    def __le__(self, o): a, b, c, d = self._key(o); return mkbool(z_lex_le(a, b, c, d))
    def __gt__(self, o): a, b, c, d = self._key(o); return mkbool(z_lex_lt(c, d, a, b))
    def __ge__(self, o): a, b, c, d = self._key(o); return mkbool(z_lex_le(c, d, a, b))
    __hash__ = None

    def __repr__(self):
        return "STimedelta(%s, %s)" % (self._d, self._r)


def _as_std(o):
    if isinstance(o, STimedelta):
        return o
    return STimedelta.from_pair(z3.IntVal(o.days), z3.IntVal(o.seconds * 1000000 + o.microseconds))


def _td_pair(o):
    o = _as_std(o)
    return o._d, o._r


# ------------------------------------------------------------------------------------------------ time
class STime:
    def __init__(self, hour=0, minute=0, second=0, microsecond=0, tzinfo=None):
        self.hour, self.minute, self.second, self.microsecond, self.tzinfo = hour, minute, second, microsecond, tzinfo

    def __bool__(self):
        return True

    def replace(self, **kw):
        a = dict(hour=self.hour, minute=self.minute, second=self.second, microsecond=self.microsecond, tzinfo=self.tzinfo)
        a.update(kw)
        return STime(**a)

    def __eq__(self, o):
        if not isinstance(o, STime):
            return False
        return S_and(*[mkbool(_zi(getattr(self, f)) == _zi(getattr(o, f))) for f in ("hour", "minute", "second", "microsecond")])

    __hash__ = None

    def __repr__(self):
        return "STime(%s, %s, %s, %s)" % (self.hour, self.minute, self.second, self.microsecond)


# ------------------------------------------------------------------------------------------------ process-local zone
class SymZone:
    """Stub for the zoneinfo.ZoneInfo object (C implementation) that tzlocal returns for the process zone: offsets come
    from a transition table [(utc transition as naive datetime, offset seconds from then on)], entry 0 = window start.
    Look-ups fork per interval (binary search with branch()), so that the offset is concrete on every path.  Wall-clock
    look-ups follow zoneinfo's fold=0 rule: a transition takes effect at wall time  t_utc + max(before, after)."""

    def __init__(self, key, table):
        self.key = key
        self._offs = [off for _, off in table]
        self._utc = [None] + [self._pair(t) for t, _ in table[1:]]
        self._wall = [None] + [self._pair(t + _rdt.timedelta(seconds=max(table[i][1], table[i + 1][1])))
                               for i, (t, _) in enumerate(table[1:])]

    @staticmethod
    def _pair(t):
        return t.toordinal(), ((t.hour * 60 + t.minute) * 60 + t.second) * 1000000 + t.microsecond

    def _idx(self, marks, o, r):
        lo, hi = 1, len(marks)                  # first i in [1, n] whose mark is after (o, r); result i - 1
        while lo < hi:
            mid = (lo + hi) // 2
            to, tr = marks[mid]
            if branch(z_lex_le(z3.IntVal(to), z3.IntVal(tr), o, r)):
                lo = mid + 1
            else:
                hi = mid
        return lo - 1

    def offset_s_wall(self, dt):
        return self._offs[self._idx(self._wall, dt._ord(), dt._us_of_day())]

    def offset_s_utc(self, dt):
        return self._offs[self._idx(self._utc, dt._ord(), dt._us_of_day())]

    def utcoffset(self, dt):
        if dt is None:
            return None
        return _rdt.timedelta(seconds=self.offset_s_wall(dt))

    def dst(self, dt):
        raise Unsupported("dst() of the process-local zone")

    def tzname(self, dt):
        raise Unsupported("tzname() of the process-local zone")

    def fromutc(self, dt):
        res = dt._shift_us(self.offset_s_utc(dt) * 1000000)
        res.tzinfo = self
        return res

    def __repr__(self):
        return "<local:%s>" % self.key


LOCAL = [None]          # None: the process-local zone is UTC; else a SymZone (set per task by a harness)


def set_local(zone):
    LOCAL[0] = zone


core.RESET_HOOKS.append(lambda: set_local(None))


# ------------------------------------------------------------------------------------------------ tz helpers
def fixed_offset_us(tz, dt=None):
    if isinstance(tz, SymZone):
        if dt is None:
            raise Unsupported("offset of the process-local zone without a wall clock")
        return tz.offset_s_wall(dt) * 1000000
    return _fixed_offset_us(tz)


def _fixed_offset_us(tz):
    """offset in µs of a fixed-offset tzinfo; anything with transitions is outside the engine"""
    if tz is None:
        raise Unsupported("offset of None tz")
    off = getattr(tz, "_utcoffset", None)
    if isinstance(off, _rdt.timedelta):
        # pytz tzinfo INSTANCES (one per (utcoffset, dst, name) of a zone) have a fixed offset: datetime.utcoffset() of a
        # value carrying this very instance returns it, whatever the wall clock (CPython: `dt.tzinfo is self`)
        return (off.days * 86400 + off.seconds) * 1000000 + off.microseconds
    probe = _rdt.datetime(2000, 1, 1)
    off = tz.utcoffset(probe)
    if off is None or off != tz.utcoffset(_rdt.datetime(2000, 7, 1)):
        raise Unsupported("non-fixed tz: %r" % (tz,))
    return (off.days * 86400 + off.seconds) * 1000000 + off.microseconds


_FIELDS = ("year", "month", "day", "hour", "minute", "second", "microsecond")
_NAMES = [0]


class SDateTime:
    """proxy for datetime.datetime (and datetime.date) whose fields are ints or SInt terms"""
    min = None
    max = None
    resolution = _rdt.timedelta(microseconds=1)

    def __init__(self, year, month=None, day=None, hour=0, minute=0, second=0, microsecond=0, tzinfo=None, *,
                 fold=0, _trusted=False):
        if month is None or day is None:
            raise TypeError("function missing required argument 'month' (pos 2)")
        if not _trusted:
            for v in (year, month, day, hour, minute, second, microsecond):
                if not isinstance(v, (int, SInt)):
                    raise TypeError("an integer is required (got type %s)" % type(v).__name__)
            if not (S_and(1 <= year, year <= 9999)):
                raise ValueError("year %s is out of range" % (year,))
            if not (S_and(1 <= month, month <= 12)):
                raise ValueError("month must be in 1..12")
            if not (S_and(1 <= day, mkbool(_zi(day) <= z_dim(_zi(year), _zi(month))))):
                raise ValueError("day is out of range for month")
            if not (S_and(0 <= hour, hour <= 23)):
                raise ValueError("hour must be in 0..23")
            if not (S_and(0 <= minute, minute <= 59)):
                raise ValueError("minute must be in 0..59")
            if not (S_and(0 <= second, second <= 59)):
                raise ValueError("second must be in 0..59")
            if not (S_and(0 <= microsecond, microsecond <= 999999)):
                raise ValueError("microsecond must be in 0..999999")
        self.year, self.month, self.day = year, month, day
        self.hour, self.minute, self.second, self.microsecond = hour, minute, second, microsecond
        self.tzinfo = tzinfo
        self.fold = fold
        self._ord_term = None
        self._tod_term = None
        self._name = None

    # -- the clock stub: one arbitrary UTC instant per path
    @classmethod
    def _clock(cls):
        c = core.CUR
        clk = c.notes.get("clock")
        if clk is None:
            k = c.notes.get("clock_count", 0)        # a harness may drop the clock between calls: the next one is independent
            c.notes["clock_count"] = k + 1
            pre = "clock_" if k == 0 else "clock%d_" % (k + 1)
            v = [z3.Int(pre + f) for f in _FIELDS]
            y, m, d, H, M, S_, us = v
            add(z_valid_date(y, m, d), H >= 0, H <= 23, M >= 0, M <= 59, S_ >= 0, S_ <= 59, us >= 0, us <= 999999)
            clk = cls(*[SInt(x) for x in v], _trusted=True)
            c.notes["clock"] = clk
            # the clock is an input of the path: models of an inconclusive path carry its value to the concrete probe
            for f, x in zip(_FIELDS, v):
                core.register_input(pre + f, x)
        return clk

    @classmethod
    def now(cls, tz=None):
        clk = cls._clock()
        if tz is None:
            if LOCAL[0] is not None:
                return LOCAL[0].fromutc(clk._copy()).replace(tzinfo=None)
            return clk.replace()  # process-local zone is UTC (stub)
        if getattr(tz, "_utc_transition_times", None) or isinstance(tz, SymZone):
            u = clk._copy()
            u.tzinfo = tz
            return tz.fromutc(u)
        r = clk._shift_us(fixed_offset_us(tz))
        r.tzinfo = tz
        return r

    @classmethod
    def today(cls):
        return cls.now()

    @classmethod
    def utcnow(cls):
        return cls._clock().replace()

    @classmethod
    def fromtimestamp(cls, ts, tz=None):
        if not isinstance(ts, (int, SInt)):
            raise Unsupported("fromtimestamp(float)")
        z = _zi(ts)
        o = EPOCH_ORD + z / 86400
        r = (z % 86400) * 1000000
        if not branch(z3.And(o >= 1, o <= MAXORD)):
            raise ValueError("year is out of range")
        res = cls._from_pair(o, r, None)
        if tz is None:
            if LOCAL[0] is not None:
                return LOCAL[0].fromutc(res).replace(tzinfo=None)
            return res
        if getattr(tz, "_utc_transition_times", None) or isinstance(tz, SymZone):
            res.tzinfo = tz
            return tz.fromutc(res)     # CPython: tz.fromutc(utc value carrying tz)
        res = res._shift_us(fixed_offset_us(tz))
        res.tzinfo = tz
        return res

    @classmethod
    def utcfromtimestamp(cls, ts):
        saved = LOCAL[0]
        LOCAL[0] = None
        try:
            return cls.fromtimestamp(ts)
        finally:
            LOCAL[0] = saved

    @classmethod
    def strptime(cls, data_string, format):
        import sys
        return sys.modules["_strptime"]._strptime_datetime(cls, data_string, format)

    @classmethod
    def _from_pair(cls, o, r, tzinfo, tail=None):
        """datetime with ordinal term o (known in range) and µs-of-day term r (or the given time fields)"""
        o = z3.simplify(o)
        if z3.is_int_value(o):
            # concrete ordinal: concrete date (no fresh variables)
            cd = _rdt.date.fromordinal(o.as_long())
            y, m, d = z3.IntVal(cd.year), z3.IntVal(cd.month), z3.IntVal(cd.day)
        else:
            y, m, d = fresh_int("y"), fresh_int("m"), fresh_int("d")
            add(z_valid_date(y, m, d), z_ord(y, m, d) == o)
        if tail is None:
            r = z3.simplify(r)
            tail = (mkint(r / 3600000000), mkint((r / 60000000) % 60), mkint((r / 1000000) % 60), mkint(r % 1000000))
        res = cls(mkint(y), mkint(m), mkint(d), *tail, tzinfo=tzinfo, _trusted=True)
        res._ord_term = o
        res._tod_term = r
        return res

    @classmethod
    def combine(cls, date, time, tzinfo=None):
        return cls(date.year, date.month, date.day, time.hour, time.minute, time.second, time.microsecond,
                   tzinfo=tzinfo if tzinfo is not None else getattr(time, "tzinfo", None), _trusted=True)

    # -- aggregates
    def _ord(self):
        if self._ord_term is not None:
            return self._ord_term
        return z_ord(_zi(self.year), _zi(self.month), _zi(self.day))

    def _us_of_day(self):
        if self._tod_term is not None:
            return self._tod_term
        return z_tod(_zi(self.hour), _zi(self.minute), _zi(self.second), _zi(self.microsecond))

    def _utc_pair(self):
        """(ordinal, µs-of-day) of the instant in UTC (naive values are taken as they are)"""
        o, r = self._ord(), self._us_of_day()
        if self.tzinfo is None:
            return o, r
        off = fixed_offset_us(self.tzinfo, self)
        if off == 0:
            return o, r
        t = r - off
        c = z3.If(t < 0, -1, z3.If(t >= K_DAY, 1, 0))
        return z3.simplify(o + c), z3.simplify(t - c * K_DAY)

    def replace(self, **kw):
        args = {f: getattr(self, f) for f in _FIELDS}
        args["tzinfo"] = self.tzinfo
        for k in kw:
            if k not in args and k != "fold":
                raise TypeError("'%s' is an invalid keyword argument for replace()" % k)
        args.update(kw)
        res = SDateTime(**args)
        changed = set(kw) - {"tzinfo", "fold"}
        if not (changed & {"year", "month", "day"}):
            res._ord_term = self._ord_term
        tch = changed & {"hour", "minute", "second", "microsecond"}
        if not tch:
            res._tod_term = self._tod_term
        elif self._tod_term is not None and len(tch) < 4:
            # keep the aggregate: tod' = tod + sum (new - old) * unit   (never recompose from the decomposition)
            unit = {"hour": 3600000000, "minute": 60000000, "second": 1000000, "microsecond": 1}
            t = self._tod_term
            for f in tch:
                t = t + (_zi(kw[f]) - _zi(getattr(self, f))) * unit[f]
            res._tod_term = z3.simplify(t)
        return res

    def _copy(self):
        res = SDateTime(self.year, self.month, self.day, self.hour, self.minute, self.second, self.microsecond,
                        tzinfo=self.tzinfo, _trusted=True)
        res._ord_term, res._tod_term = self._ord_term, self._tod_term
        return res

    def weekday(self):
        return mkint((self._ord() + 6) % 7)

    def isoweekday(self):
        return self.weekday() + 1

    def toordinal(self):
        return mkint(self._ord())

    def date(self):
        r = SDateTime(self.year, self.month, self.day, _trusted=True)
        r._ord_term = self._ord_term
        return r

    def time(self):
        return STime(self.hour, self.minute, self.second, self.microsecond)

    def timetz(self):
        return STime(self.hour, self.minute, self.second, self.microsecond, self.tzinfo)

    def utcoffset(self):
        if self.tzinfo is None:
            return None
        return self.tzinfo.utcoffset(self)

    def tzname(self):
        if self.tzinfo is None:
            return None
        return self.tzinfo.tzname(self)

    def dst(self):
        if self.tzinfo is None:
            return None
        return self.tzinfo.dst(self)

    def _shift_us(self, us):
        return self._shift(STimedelta.from_pair(z3.IntVal(us // K_DAY), z3.IntVal(us % K_DAY)))

    def _shift(self, td, sign=1):
        """self ± td on (days, µs-of-day) pairs; ITE month rollover when |day carry| <= 28, else ordinal inversion"""
        td = _as_std(td)
        if sign < 0:
            td = -td
        tr = z3.simplify(td._r)
        if z3.is_int_value(tr) and tr.as_long() == 0:
            # whole days: the time of day (and its decomposition) is untouched
            dd = z3.simplify(td._d)
            if z3.is_int_value(dd) and dd.as_long() == 0:
                return self._copy()
            r = self._tod_term
            tail = (self.hour, self.minute, self.second, self.microsecond)
        else:
            t = self._us_of_day() + td._r
            c = z3.If(t >= K_DAY, 1, 0)
            dd = z3.simplify(td._d + c)
            r = z3.simplify(t - c * K_DAY)
            tail = (mkint(r / 3600000000), mkint((r / 60000000) % 60), mkint((r / 1000000) % 60), mkint(r % 1000000))
        small = z3.And(dd >= -28, dd <= 28)
        if not core.CUR.check(z3.Not(small)):
            y, m, d = _zi(self.year), _zi(self.month), _zi(self.day)
            d1 = d + dd
            pm = z3.If(m == 1, 12, m - 1)
            py = z3.If(m == 1, y - 1, y)
            nm = z3.If(m == 12, 1, m + 1)
            ny = z3.If(m == 12, y + 1, y)
            over = d1 > z_dim(y, m)
            under = d1 < 1
            y2 = z3.If(over, ny, z3.If(under, py, y))
            m2 = z3.If(over, nm, z3.If(under, pm, m))
            d2 = z3.If(over, d1 - z_dim(y, m), z3.If(under, d1 + z_dim(py, pm), d1))
            if not branch(z3.And(y2 >= 1, y2 <= 9999)):
                raise OverflowError("date value out of range")
            res = SDateTime(mkint(y2), mkint(m2), mkint(d2), *tail, tzinfo=self.tzinfo, _trusted=True)
            res._tod_term = r
            res._ord_term = z3.simplify(self._ord() + dd)
            return res
        o = z3.simplify(self._ord() + dd)
        if not branch(z3.And(o >= 1, o <= MAXORD)):
            raise OverflowError("date value out of range")
        return SDateTime._from_pair(o, r, self.tzinfo, tail)

    def astimezone(self, tz=None):
        if self.tzinfo is None:
            # naive values are taken as process-local time (the stubbed process zone: UTC unless a harness set one)
            a = LOCAL[0].offset_s_wall(self) * 1000000 if LOCAL[0] is not None else 0
        else:
            a = fixed_offset_us(self.tzinfo, self)
        if tz is None:
            # CPython: the result carries a FIXED-offset timezone holding the local offset in force at that instant
            utc = self._shift_us(-a) if a else self._copy()
            b = LOCAL[0].offset_s_utc(utc) if LOCAL[0] is not None else 0
            r = utc._shift_us(b * 1000000) if b else utc._copy()
            r.tzinfo = _rdt.timezone(_rdt.timedelta(seconds=b))
            return r
        if getattr(tz, "_utc_transition_times", None) or isinstance(tz, SymZone):
            # CPython: utc = (self - offset).replace(tzinfo=tz); return tz.fromutc(utc)   (pytz's own fromutc runs)
            utc = self._shift_us(-a) if a else self._copy()
            utc.tzinfo = tz
            return tz.fromutc(utc)
        b = fixed_offset_us(tz)
        if a == b:
            r = self.replace(tzinfo=tz)
            return r
        r = self._shift_us(b - a)
        r.tzinfo = tz
        return r

    def __add__(self, o):
        if isinstance(o, (STimedelta, _rdt.timedelta)):
            return self._shift(o)
        return NotImplemented

    __radd__ = __add__

    def __sub__(self, o):
        if isinstance(o, (STimedelta, _rdt.timedelta)):
            return self._shift(o, -1)
        if isinstance(o, SDateTime):
            if (self.tzinfo is None) != (o.tzinfo is None):
                raise TypeError("can't subtract offset-naive and offset-aware datetimes")
            ao, ar = self._utc_pair()
            bo, br = o._utc_pair()
            t = ar - br
            c = z3.If(t < 0, 1, 0)
            return STimedelta.from_pair(ao - bo - c, t + c * K_DAY)
        return NotImplemented

    def _cmpkey(self, o):
        if isinstance(o, _rdt.datetime):
            o = SDateTime(o.year, o.month, o.day, o.hour, o.minute, o.second, o.microsecond, tzinfo=o.tzinfo, _trusted=True)
        if not isinstance(o, SDateTime):
            raise TypeError("can't compare SDateTime to %s" % type(o).__name__)
        if (self.tzinfo is None) != (o.tzinfo is None):
            raise TypeError("can't compare offset-naive and offset-aware datetimes")
        return self._utc_pair() + o._utc_pair()

    def __lt__(self, o): a, b, c, d = self._cmpkey(o); return mkbool(z_lex_lt(a, b, c, d))
    def __le__(self, o): a, b, c, d = self._cmpkey(o); return mkbool(z_lex_le(a, b, c, d))
    def __gt__(self, o): a, b, c, d = self._cmpkey(o); return mkbool(z_lex_lt(c, d, a, b))
    def __ge__(self, o): a, b, c, d = self._cmpkey(o); return mkbool(z_lex_le(c, d, a, b))

    def __eq__(self, o):
        if not isinstance(o, (SDateTime, _rdt.datetime)):
            return False
        if (self.tzinfo is None) != (o.tzinfo is None):
            return False
        a, b, c, d = self._cmpkey(o)
        return mkbool(z3.And(a == c, b == d))

    def __ne__(self, o):
        r = self.__eq__(o)
        return (not r) if isinstance(r, bool) else mkbool(z3.Not(r.z))

    def __hash__(self):
        # a constant: dict/set semantics then rest on __eq__ alone (which forks when the values are symbolic) - what pytz's
        # localize() needs for its two-candidate dict of an ambiguous wall-clock time
        return 0x5D7

    def __bool__(self):
        return True

    def _label(self):
        if self._name is None:
            parts = []
            for f in _FIELDS:
                v = getattr(self, f)
                parts.append(str(v) if isinstance(v, int) else "?")
            self._name = "SDT(%s)" % ",".join(parts)
        return self._name

    def __repr__(self):
        return "SDateTime(%s%s)" % (", ".join(str(getattr(self, f)) for f in _FIELDS),
                                    "" if self.tzinfo is None else ", tz=%r" % (self.tzinfo,))

    def __str__(self):
        # used by Settings.get_key (registry key): stable per variable naming, not per value
        return "SDT[%s]" % ",".join(str(getattr(self, f).z) if isinstance(getattr(self, f), SInt) else str(getattr(self, f))
                                    for f in _FIELDS) + ("" if self.tzinfo is None else "@%r" % (self.tzinfo,))

    def isoformat(self, *a, **k):
        raise Unsupported("isoformat of symbolic datetime")

    def strftime(self, fmt):
        raise Unsupported("strftime of symbolic datetime")

    def timetuple(self):
        raise Unsupported("timetuple of symbolic datetime")


SDateTime.min = SDateTime(1, 1, 1)
SDateTime.max = SDateTime(9999, 12, 31, 23, 59, 59, 999999)


def sx_bisect_right(a, x, lo=0, hi=None):
    """bisect.bisect_right in Python, so that the comparisons of a symbolic key fork (log2(len) decisions)"""
    if hi is None:
        hi = len(a)
    while lo < hi:
        mid = (lo + hi) // 2
        if x < a[mid]:
            hi = mid
        else:
            lo = mid + 1
    return lo


def sym_datetime(prefix, ymin=1, ymax=9999, tzinfo=None, with_time=True, with_us=True):
    """a fresh arbitrary valid datetime whose field variables are named <prefix>_<field>"""
    v = {f: z3.Int("%s_%s" % (prefix, f)) for f in _FIELDS}
    add(v["year"] >= ymin, v["year"] <= ymax, v["month"] >= 1, v["month"] <= 12, v["day"] >= 1,
        v["day"] <= z_dim(v["year"], v["month"]))
    if with_time:
        add(v["hour"] >= 0, v["hour"] <= 23, v["minute"] >= 0, v["minute"] <= 59, v["second"] >= 0, v["second"] <= 59)
        if with_us:
            add(v["microsecond"] >= 0, v["microsecond"] <= 999999)
    args = [SInt(v[f]) for f in _FIELDS[:3]]
    if with_time:
        args += [SInt(v[f]) for f in _FIELDS[3:6]]
        args.append(SInt(v["microsecond"]) if with_us else 0)
    else:
        args += [0, 0, 0, 0]
    return SDateTime(*args, tzinfo=tzinfo, _trusted=True)


def witness_of(dt, prefix):
    return {"%s_%s" % (prefix, f): getattr(dt, f) for f in _FIELDS}


# ------------------------------------------------------------------------------------------------ calendar
class _SymCalendar:
    """the functions of `calendar` the analysed code uses, over any integer year (CPython maps the weekday of years
    outside 1..9999 via 2000 + y % 400; month lengths only need the leap rule)"""
    MONDAY, TUESDAY, WEDNESDAY, THURSDAY, FRIDAY, SATURDAY, SUNDAY = range(7)

    @staticmethod
    def isleap(y):
        return mkbool(z_isleap(_zi(y)))

    @staticmethod
    def weekday(y, m, d):
        yz = _zi(y)
        inr = z3.And(yz >= 1, yz <= 9999)
        y2 = z3.If(inr, yz, 2000 + yz % 400)
        return mkint((z_ord(y2, _zi(m), _zi(d)) + 6) % 7)

    @classmethod
    def monthrange(cls, y, m):
        if not S_and(1 <= m, m <= 12):
            import calendar as _c
            raise _c.IllegalMonthError(m)
        return (cls.weekday(y, m, 1), mkint(z_dim(_zi(y), _zi(m))))

    def __getattr__(self, name):
        import calendar as _c
        return getattr(_c, name)


symcalendar = _SymCalendar()
