"""Template construction: fixed characters plus decimal fields."""
from .strings import TStr, coerce, wrap


def tmpl(parts, vals, base=48):
    """parts: list of str | (name, width); vals: name -> int/SInt.  Returns TStr (or str when concrete)."""
    t = TStr([])
    for part in parts:
        if isinstance(part, str):
            t = coerce(t + part)
        else:
            t = coerce(t + TStr.field(vals[part[0]], part[1], base))
    return wrap(t)


def render(parts, vals, base=48):
    """concrete rendering of the same template (for replay)"""
    out = []
    for part in parts:
        if isinstance(part, str):
            out.append(part)
        else:
            s = "%0*d" % (part[1], vals[part[0]])
            out.append("".join(chr(base + int(c)) for c in s))
    return "".join(out)
